#!/usr/bin/env python3
"""check <property-id> [--tier quick|thorough]

Decides one property of /repo's current working tree by symbolic execution of the real Go code
(gosym, /verif/engine) and an SMT verdict per obligation; every `sat` answer is replayed natively
against the real code before it is reported.  Writes /verif/evidence/<id>.json.
"""
import glob
import hashlib
import json
import os
import re
import subprocess
import sys
import time

VERIF = os.path.dirname(os.path.abspath(__file__))
REPO = os.environ.get("VERIF_REPO", "/repo")
HARNESS = os.path.join(VERIF, "harness")
CACHE = os.environ.get("VERIF_CACHE", os.path.join(VERIF, ".cache"))  # scratch runs (seeded changes on a copy of the repo) use their own
GOSYM = os.path.join(VERIF, "bin", "gosym")
GOENV = dict(os.environ, GOFLAGS="-mod=mod", GOPROXY="off", GOSUMDB="off", GOTOOLCHAIN="local")
MODULE = "github.com/jackalLabs/canine-chain/v4"

sys.path.insert(0, VERIF)
from checks import CHECKS  # noqa: E402


def log(*a):
    print(*a, file=sys.stderr, flush=True)


def ensure_engine():
    os.makedirs(os.path.join(VERIF, "bin"), exist_ok=True)
    os.makedirs(CACHE, exist_ok=True)
    src = max(os.path.getmtime(p) for p in glob.glob(os.path.join(VERIF, "engine", "**", "*.go"), recursive=True))
    if not os.path.exists(GOSYM) or os.path.getmtime(GOSYM) < src:
        subprocess.run(["go", "build", "-o", GOSYM, "./cmd/gosym"], cwd=os.path.join(VERIF, "engine"), env=GOENV, check=True)


def run_gosym(group, tier, extra_overlays):
    out = os.path.join(CACHE, "res-%s-%d.json" % (hashlib.md5(json.dumps(group, sort_keys=True).encode()).hexdigest()[:10], os.getpid()))
    opts = dict(group.get("opts", {}))
    opts.update(group.get(tier, {}))
    cmd = [GOSYM, "-repo", REPO, "-harness", HARNESS, "-pkgs", group["pkgs"], "-fn", ",".join(group["fns"]), "-out", out,
           "-j", str(opts.get("j", 3)), "-w", str(opts.get("w", 6)), "-feas-ms", str(opts.get("feas_ms", 8000)),
           "-assert-ms", str(opts.get("assert_ms", 60000 if tier == "quick" else 300000)),
           "-max-paths", str(opts.get("max_paths", 20000)), "-tier", tier]
    if opts.get("map_orders"):
        cmd.append("-map-orders")
    for ov in extra_overlays:
        cmd += ["-overlay", ov]
    env = dict(GOENV)
    if "tierenv" in opts:
        env.update(opts["tierenv"])
    env["VERIF_TIER"] = tier
    p = subprocess.run(cmd, env=env, stdout=subprocess.PIPE, stderr=subprocess.PIPE, text=True)
    if p.returncode != 0 or not os.path.exists(out):
        return None, p.stderr[-4000:]
    with open(out) as f:
        res = json.load(f)
    os.unlink(out)
    return res, p.stderr


# ---------------------------------------------------------------- native replay

def harness_files_for(pkgdir):
    d = os.path.join(HARNESS, "pkgs", pkgdir)
    return sorted(glob.glob(os.path.join(d, "*.go")))


def build_replay(pkg_import, extra_overlays):
    """Build (cached) the native replay test binary of one package."""
    pkgdir = pkg_import[len(MODULE) + 1:]
    files = harness_files_for(pkgdir)
    names = []
    for f in files:
        if f.endswith("_sym.go"):
            continue
        names += re.findall(r"^func (VH_\w+)\(\)", open(f).read(), re.M)
    h = hashlib.sha256()
    for f in files + sorted(glob.glob(os.path.join(HARNESS, "zzverif", "*", "*.go"))):
        h.update(open(f, "rb").read())
    for ov in extra_overlays:
        h.update(ov.encode())
        h.update(open(ov.split("=", 1)[1], "rb").read())
    # the repo sources of the package (and everything else) are tracked by go's own build cache
    key = h.hexdigest()[:16]
    wd = os.path.join(CACHE, "replay", pkgdir.replace("/", "_"))
    os.makedirs(wd, exist_ok=True)
    binp = os.path.join(wd, "replay-%s.test" % key)
    test_go = os.path.join(wd, "zz_verif_replay_test.go")
    pkgname = re.search(r"^package (\w+)", open(files[0]).read(), re.M).group(1)
    with open(test_go, "w") as f:
        f.write("package %s\n\nimport (\n\t\"encoding/json\"\n\t\"flag\"\n\t\"fmt\"\n\t\"testing\"\n\n\t\"%s/zzverif\"\n)\n\n" % (pkgname, MODULE))
        f.write("var zzScenario = flag.String(\"scenario\", \"\", \"scenario file\")\n\n")
        f.write("func TestZZReplay(t *testing.T) {\n\tres := zzverif.RunScenario(*zzScenario, map[string]func(){\n")
        for n in names:
            f.write("\t\t\"%s\": %s,\n" % (n, n))
        f.write("\t})\n\tb, _ := json.Marshal(res)\n\tfmt.Println(\"ZZRESULT \" + string(b))\n}\n")
    repl = {}
    for sub in ("common", "native"):
        for f in glob.glob(os.path.join(HARNESS, "zzverif", sub, "*.go")):
            repl[os.path.join(REPO, "zzverif", os.path.basename(f))] = f
    for root, _, fs in os.walk(os.path.join(HARNESS, "pkgs")):
        for fn in fs:
            if not fn.endswith(".go") or fn.endswith("_sym.go"):
                continue
            rel = os.path.relpath(root, os.path.join(HARNESS, "pkgs"))
            repl[os.path.join(REPO, rel, "zz_verif_" + fn)] = os.path.join(root, fn)
    repl[os.path.join(REPO, pkgdir, "zz_verif_replay_test.go")] = test_go
    for ov in extra_overlays:
        k, v = ov.split("=", 1)
        repl[os.path.join(REPO, k)] = v
    ovf = os.path.join(wd, "overlay.json")
    with open(ovf, "w") as f:
        json.dump({"Replace": repl}, f)
    # always rebuild through go's build cache: /repo may have changed
    p = subprocess.run(["go", "test", "-c", "-vet=off", "-overlay", ovf, "-o", binp, "./" + pkgdir], cwd=REPO, env=GOENV,
                       stdout=subprocess.PIPE, stderr=subprocess.STDOUT, text=True)
    if p.returncode != 0:
        return None, p.stdout[-3000:]
    return binp, ""


_replay_bins = {}


def replay(pkg_import, scenario, path, extra_overlays):
    if pkg_import not in _replay_bins:
        _replay_bins[pkg_import] = build_replay(pkg_import, extra_overlays)
    binp, err = _replay_bins[pkg_import]
    if binp is None:
        return {"error": "replay build failed: " + err}
    with open(path, "w") as f:
        json.dump(scenario, f, indent=1)
    try:
        p = subprocess.run([binp, "-test.run", "TestZZReplay", "-scenario", path], cwd=os.path.dirname(binp),
                           stdout=subprocess.PIPE, stderr=subprocess.STDOUT, text=True, timeout=600)
    except subprocess.TimeoutExpired:
        return {"error": "replay timeout"}
    m = re.search(r"^ZZRESULT (.*)$", p.stdout, re.M)
    if not m:
        return {"error": "replay produced no result: " + p.stdout[-2000:]}
    res = json.loads(m.group(1))
    with open(path + ".result", "w") as f:
        json.dump(res, f, indent=1)
    res.pop("stack", None)
    return res


# ---------------------------------------------------------------- known findings

def load_known():
    known, fixed = [], []
    p = os.path.join(VERIF, "known_findings.txt")
    if os.path.exists(p):
        for line in open(p):
            line = line.strip()
            if not line or line.startswith("#"):
                continue
            m = re.match(r"finding: property=(\S+) obligation=(\S+) (.*)", line)
            if m:
                known.append({"property": m.group(1), "obligation": m.group(2), "what": m.group(3)})
            m = re.match(r"fixed: property=(\S+) (\S+) (.*)", line)
            if m:
                fixed.append({"property": m.group(1), "commit": m.group(2), "what": m.group(3)})
    return known, fixed


# ---------------------------------------------------------------- main

def main():
    args = sys.argv[1:]
    if not args:
        print(__doc__)
        return 2
    if args[0] == "--replay":
        sc = json.load(open(args[1]))
        pkg = sc["pkg"]
        r = replay(pkg, sc, args[1] + ".tmp", [])
        print(json.dumps(r, indent=1))
        return 0
    prop = args[0]
    tier = os.environ.get("VERIF_TIER", "quick")
    extra = []
    i = 1
    while i < len(args):
        if args[i] == "--tier":
            tier = args[i + 1]
            i += 2
        elif args[i] == "--overlay":
            extra.append(args[i + 1])
            i += 2
        else:
            i += 1
    seed = int(os.environ.get("VERIF_SEED", "0") or 0)
    if prop not in CHECKS:
        log("no check registered for", prop)
        return 2
    spec = CHECKS[prop]
    t0 = time.time()
    ensure_engine()
    known, _fixed = load_known()
    evdir = os.environ.get("VERIF_EVIDENCE", os.path.join(VERIF, "evidence"))
    os.makedirs(os.path.join(evdir, "replay"), exist_ok=True)

    results = []
    errors = []
    if "pregen" in spec:
        pg = subprocess.run(spec["pregen"], cwd=VERIF, env=dict(os.environ, VERIF_REPO=REPO), stdout=subprocess.PIPE, stderr=subprocess.STDOUT, text=True)
        if pg.returncode != 0:
            errors.append("pregen failed: " + pg.stdout[-2000:])
    if "covers_file" in spec and os.path.exists(os.path.join(VERIF, spec["covers_file"])):
        spec = dict(spec, covers=list(spec.get("covers", [])) + json.load(open(os.path.join(VERIF, spec["covers_file"]))))
    for g in spec["groups"]:
        if tier == "quick" and g.get("thorough_only"):
            continue
        res, err = run_gosym(g, tier, extra)
        if res is None:
            errors.append("gosym failed for %s: %s" % (g["pkgs"], err))
            continue
        for r in res["results"]:
            r["_group"] = g
            results.append(r)

    obligations = discharged = inconclusive = 0
    violations_new = []
    known_hits = {}
    unconfirmed = []
    samples = []
    states = transitions = 0
    fns, intr, unsupported, overflow, merged = set(), set(), {}, {}, {}
    covers = {}
    solver_time = {}
    solver_wins = {}
    queries = 0
    bounds = {}
    replayed = 0
    tried = {}
    for r in results:
        states += sum(r["paths"].values())
        transitions += r["ssa_instructions"]
        fns.update(f for f in r["functions_encoded"] if "jackalLabs" in f or "cosmos-sdk/types" in f or "merkletree" in f)
        intr.update(r["intrinsics_used"])
        for k, v in r["unsupported"].items():
            unsupported[r["harness"] + ": " + k] = v
        for k, v in (r.get("overflow_sites") or {}).items():
            overflow[k] = overflow.get(k, 0) + v
        for k, v in (r.get("merged_callees") or {}).items():
            merged[k] = merged.get(k, 0) + v
        for k, v in r["covers"].items():
            covers[k] = covers.get(k, 0) + v
        for k, v in (r.get("bounds") or {}).items():
            bounds[k] = max(bounds.get(k, 0), v)
        sv = r["solver"]
        queries += sv["queries"]
        for k, v in sv["time_s"].items():
            solver_time[k] = solver_time.get(k, 0) + v
        for k, v in sv["wins"].items():
            solver_wins[k] = solver_wins.get(k, 0) + v
        inconclusive += r["paths"].get("unsupported", 0) + r["paths"].get("unwind", 0) + r["paths"].get("unexplored", 0)
        # panics are obligations of harnesses that declare panics as violations
        panic_is_violation = r["_group"].get("panic_is_violation", False)
        for site, n in (r.get("panic_sites") or {}).items():
            if not panic_is_violation:
                continue
        seen_ids = set()
        # instances whose scenario a harness marked as replay-friendly (e.g. a payer rich enough for the real
        # price where the symbolic run used a price cut) are tried first
        prefer = spec.get("replay_prefer", {"payer.rich": True})
        def _pref(o):
            sc = o.get("Scenario") or {}
            nd = sc.get("nondet") or {}
            return 0 if all(nd.get(k) == v for k, v in prefer.items()) else 1
        obs_sorted = sorted(r["obligations"] or [], key=lambda o: (0 if o["Verdict"] != "violated" else 1, _pref(o)))
        for o in obs_sorted:
            obligations += 1
            if o["Verdict"] == "discharged":
                discharged += 1
                if len(samples) < 6 and o["ID"] not in seen_ids:
                    samples.append({"obligation": o["ID"] + "@" + r["harness"], "verdict": "unsat", "solver": o["Solver"], "pc_size": o["PCSize"]})
                seen_ids.add(o["ID"])
                continue
            if o["Verdict"] == "unknown":
                inconclusive += 1
                print("INCONCLUSIVE %s@%s solver verdict unknown" % (o["ID"], r["harness"]))
                continue
            # violated: replay instances of this obligation until one confirms (at most 4 per obligation)
            key = (r["harness"], o["ID"])
            if key in known_hits or any((v["harness"], v["obligation"]) == key for v in violations_new):
                continue
            tried[key] = tried.get(key, 0) + 1
            if tried[key] > 4:
                continue
            sc = o["Scenario"]
            sc["pkg"] = r["pkg"]
            path = os.path.join(evdir, "replay", "%s-%s.json" % (prop, re.sub(r"[^A-Za-z0-9_.-]", "_", o["ID"])))
            if tried[key] > 1:
                path = path[:-5] + ".try%d.json" % tried[key]
            rr = replay(r["pkg"], sc, path, extra)
            replayed += 1
            confirmed = o["ID"] in (rr.get("failed_asserts") or [])
            entry = {"harness": r["harness"], "obligation": o["ID"], "replay": path, "replay_result": rr}
            if confirmed:
                unconfirmed[:] = [u for u in unconfirmed if (u["harness"], u["obligation"]) != key]
                kn = [k for k in known if k["property"] == prop and k["obligation"] == o["ID"]]
                if kn:
                    known_hits[key] = kn[0]
                else:
                    violations_new.append(entry)
            else:
                if not any((u["harness"], u["obligation"]) == key for u in unconfirmed):
                    unconfirmed.append(entry)
    # translator validation: the witness of each cover point (a model of the symbolic run) is executed
    # natively; the real code must reach the same cover point with no failed assertion
    conf_ok = conf_bad = 0
    violated_ids = {o["ID"] for r in results for o in (r.get("obligations") or []) if o["Verdict"] == "violated"}
    conf_limit = spec.get("conformance_limit", 8 if tier == "quick" else 40)
    if spec.get("conformance") is False:
        conf_limit = 0  # witnesses depend on hash values (A-HASH abstraction): not replayable natively
    for r in results:
        for cid, sc in sorted((r.get("cover_models") or {}).items()):
            if sc is None or conf_ok + conf_bad >= conf_limit or "(feasibility unknown)" in cid or cid in spec.get("conformance_skip", []):
                continue
            sc = dict(sc, pkg=r["pkg"])
            path = os.path.join(evdir, "replay", "%s-cover-%s.json" % (prop, re.sub(r"[^A-Za-z0-9_.-]", "_", cid)))
            rr = replay(r["pkg"], sc, path, extra)
            # assertions the symbolic run itself reports as violated may of course fail natively as well
            stray = [a for a in (rr.get("failed_asserts") or []) if a not in violated_ids]
            if cid in (rr.get("covers") or []) and not stray and not rr.get("panic"):
                conf_ok += 1
            else:
                conf_bad += 1
                print("CONFORMANCE-MISMATCH cover %s@%s native=%s" % (cid, r["harness"], json.dumps(rr)[:300]))
    replayed += conf_ok + conf_bad
    # a cover point whose only witnesses have undecided feasibility (solver time-out under load) is
    # inconclusive, not vacuous: it is reported, but does not make the check fail
    missing_covers = [c for c in spec.get("covers", []) if covers.get(c, 0) == 0 and covers.get(c + " (feasibility unknown)", 0) == 0]
    for c in spec.get("covers", []):
        if covers.get(c, 0) == 0 and covers.get(c + " (feasibility unknown)", 0) > 0:
            print("INCONCLUSIVE cover %s: feasibility of every witness undecided" % c)

    for (hn, ob), k in known_hits.items():
        print("KNOWN-FINDING: property=%s obligation=%s %s" % (prop, ob, k["what"]))
    for u in unconfirmed:
        print("UNCONFIRMED-CEX %s@%s replay=%s result=%s" % (u["obligation"], u["harness"], u["replay"], json.dumps(u["replay_result"])[:300]))
    for e in errors:
        print("ERROR " + e)
    for k, v in unsupported.items():
        print("INCONCLUSIVE path x%d: %s" % (v, k))
    for c in missing_covers:
        print("VACUOUS cover point not reached: " + c)
    for v in violations_new:
        print("VIOLATION property=%s replay=%s" % (prop, v["replay"]))
        log("  obligation %s in %s; replay: %s" % (v["obligation"], v["harness"], json.dumps(v["replay_result"])[:400]))

    wall = time.time() - t0
    ev = {
        "property_id": prop, "tier": tier, "seed": seed, "level": "model_checking",
        "coverage": {
            "states": max(states, 1), "transitions": max(int(transitions), 1),
            "traces_validated_against_impl": replayed,
            "samples": samples or [{"note": "no discharged obligation in this run"}],
            "obligations": obligations, "discharged": discharged, "inconclusive": inconclusive,
            "violations_confirmed_new": len(violations_new), "known_findings_reproduced": len(known_hits),
            "unconfirmed_cex": len(unconfirmed),
            "cover_witnesses_replayed_natively": conf_ok + conf_bad, "cover_witnesses_agreeing": conf_ok,
            "harnesses": sorted(set(r["harness"] for r in results)),
            "functions_encoded": sorted(fns), "intrinsics_used": sorted(intr),
            "covers_reached": covers, "covers_missing": missing_covers,
            "bounds": dict(bounds, **spec.get("bounds", {})),
            "solver_queries": queries, "solver_time_s": solver_time, "solver_wins": solver_wins,
            "overflow_sites": overflow, "merged_callees": merged,
            "outside_claim": spec.get("outside", []),
            "explanation": spec.get("explanation", ""),
        },
        "assumptions": spec.get("assumptions", []),
        "wall_s": round(wall, 2),
        "violations": len(violations_new),
    }
    with open(os.path.join(evdir, prop + ".json"), "w") as f:
        json.dump(ev, f, indent=1)
    log("%s %s: obligations=%d discharged=%d inconclusive=%d new_violations=%d known=%d unconfirmed=%d covers_missing=%d wall=%.0fs" % (
        prop, tier, obligations, discharged, inconclusive, len(violations_new), len(known_hits), len(unconfirmed), len(missing_covers), wall))
    if violations_new:
        return 1
    if errors or missing_covers:
        # a check that cannot run or is vacuous must not look green
        return 3
    return 0


if __name__ == "__main__":
    sys.exit(main())
