package gosym

// Query-level equality propagation: a path condition that pins an integer variable to a constant
// (x = c) lets every other assertion be rebuilt with c for x, which turns products of that variable into
// linear terms before the solvers see them. The defining equalities stay in the query, so models still
// report the variable.

func rebuild(t *Term, a []*Term) *Term {
	switch t.Op {
	case "+":
		r := a[0]
		for _, x := range a[1:] {
			r = Add(r, x)
		}
		return r
	case "-":
		return Sub(a[0], a[1])
	case "*":
		r := a[0]
		for _, x := range a[1:] {
			r = Mul(r, x)
		}
		return r
	case "neg":
		return Neg(a[0])
	case "div":
		return Div(a[0], a[1])
	case "mod":
		return Mod(a[0], a[1])
	case "ite":
		return Ite(a[0], a[1], a[2])
	case "not":
		return Not(a[0])
	case "and":
		return And(a...)
	case "or":
		return Or(a...)
	case "=":
		return Eq(a[0], a[1])
	case "<":
		return Lt(a[0], a[1])
	case "<=":
		return Le(a[0], a[1])
	case "str.from_int":
		return FromInt(a[0])
	case "str.len":
		return Len(a[0])
	case "str.++":
		return Concat(a...)
	case "uf":
		return App(t.SV, a...)
	}
	return intern(&Term{Op: t.Op, Sort: t.Sort, Args: a, SV: t.SV, IV: t.IV, BV: t.BV})
}

func substTerm(t *Term, m map[int]*Term, memo map[int]*Term) *Term {
	if r, ok := memo[t.ID]; ok {
		return r
	}
	var r *Term
	switch {
	case t.Op == "var":
		if c, ok := m[t.ID]; ok {
			r = c
		} else {
			r = t
		}
	case len(t.Args) == 0:
		r = t
	default:
		changed := false
		na := make([]*Term, len(t.Args))
		for i, x := range t.Args {
			na[i] = substTerm(x, m, memo)
			if na[i] != x {
				changed = true
			}
		}
		if changed {
			r = rebuild(t, na)
		} else {
			r = t
		}
	}
	memo[t.ID] = r
	return r
}

func occurs(v *Term, t *Term, memo map[int]bool) bool {
	if t == v {
		return true
	}
	if r, ok := memo[t.ID]; ok {
		return r
	}
	r := false
	for _, a := range t.Args {
		if occurs(v, a, memo) {
			r = true
			break
		}
	}
	memo[t.ID] = r
	return r
}

// constEqOf recognises x = c (integer variable, constant) and s = t (string variable, any term without s).
func constEqOf(a *Term) (*Term, *Term, bool) {
	if a.Op != "=" || len(a.Args) != 2 {
		return nil, nil, false
	}
	x, y := a.Args[0], a.Args[1]
	if x.Op == "var" && x.Sort == SInt && y.isI() {
		return x, y, true
	}
	if y.Op == "var" && y.Sort == SInt && x.isI() {
		return y, x, true
	}
	if x.Sort == SStr {
		if x.Op == "var" && y.Op != "var" && !occurs(x, y, map[int]bool{}) {
			return x, y, true
		}
		if y.Op == "var" && x.Op != "var" && !occurs(y, x, map[int]bool{}) {
			return y, x, true
		}
	}
	return nil, nil, false
}

// propagateConstEq rewrites the assertions under the integer equalities x = c found among them.
func propagateConstEq(asserts []*Term) []*Term {
	for round := 0; round < 3; round++ {
		m := map[int]*Term{}
		for _, a := range asserts {
			if v, c, ok := constEqOf(a); ok {
				if _, dup := m[v.ID]; !dup {
					m[v.ID] = c
				}
			}
		}
		if len(m) == 0 {
			return asserts
		}
		memo := map[int]*Term{}
		out := make([]*Term, 0, len(asserts))
		changed := false
		for _, a := range asserts {
			if v, c, ok := constEqOf(a); ok && m[v.ID] == c {
				out = append(out, a)
				continue
			}
			na := substTerm(a, m, memo)
			if na != a {
				changed = true
			}
			if na == TTrue {
				continue
			}
			out = append(out, na)
		}
		asserts = out
		if !changed {
			break
		}
	}
	return asserts
}
