package gosym

import "strings"

// Minimal bech32 encoder (BIP-173) used to turn abstract address strings of a model into valid ones.
const b32charset = "qpzry9x8gf2tvdw0s3jn54khce6mua7l"

func b32polymod(values []byte) uint32 {
	gen := []uint32{0x3b6a57b2, 0x26508e6d, 0x1ea119fa, 0x3d4233dd, 0x2a1462b3}
	chk := uint32(1)
	for _, v := range values {
		top := chk >> 25
		chk = (chk&0x1ffffff)<<5 ^ uint32(v)
		for i := 0; i < 5; i++ {
			if (top>>uint(i))&1 == 1 {
				chk ^= gen[i]
			}
		}
	}
	return chk
}

func b32hrpExpand(hrp string) []byte {
	var out []byte
	for i := 0; i < len(hrp); i++ {
		out = append(out, hrp[i]>>5)
	}
	out = append(out, 0)
	for i := 0; i < len(hrp); i++ {
		out = append(out, hrp[i]&31)
	}
	return out
}

func convertBits8to5(data []byte) []byte {
	var out []byte
	acc, bits := uint32(0), uint(0)
	for _, b := range data {
		acc = acc<<8 | uint32(b)
		bits += 8
		for bits >= 5 {
			bits -= 5
			out = append(out, byte(acc>>bits)&31)
		}
	}
	if bits > 0 {
		out = append(out, byte(acc<<(5-bits))&31)
	}
	return out
}

func Bech32Encode(hrp string, data []byte) string {
	d5 := convertBits8to5(data)
	values := append(b32hrpExpand(hrp), d5...)
	values = append(values, 0, 0, 0, 0, 0, 0)
	pm := b32polymod(values) ^ 1
	var sb strings.Builder
	sb.WriteString(hrp)
	sb.WriteByte('1')
	for _, v := range d5 {
		sb.WriteByte(b32charset[v])
	}
	for i := 0; i < 6; i++ {
		sb.WriteByte(b32charset[(pm>>uint(5*(5-i)))&31])
	}
	return sb.String()
}
