package gosym

import (
	"fmt"
	"go/constant"
	"go/token"
	"go/types"
	"math/big"
	"os"
	"sort"
	"strings"
	"sync"

	"golang.org/x/tools/go/ssa"
)

type Config struct {
	FeasMs      int // feasibility query cap
	AssertMs    int // obligation query cap
	LoopCap     int
	MaxSteps    int
	MaxPaths    int
	Verbose     bool
	NoWrapCheck bool
}

type ObResult struct {
	ID      string
	Verdict string // "discharged" "violated" "unknown"
	Model   map[string]string
	PathID  int
	Solver  string
	PCSize  int
	Scenario *Scenario
}

type Engine struct {
	Prog    *ssa.Program
	Cfg     Config
	Harness string

	mu          sync.Mutex
	Obs         []ObResult
	Covers      map[string]int
	CoverModels map[string]*Scenario
	Paths       map[string]int // status -> count
	Steps       int64
	FnsExecuted map[string]int
	IntrUsed    map[string]int
	Unsupp      map[string]int
	Overflow    map[string]int
	FeasUnknown int
	PanicSites  map[string]int
	fnInfos     map[*ssa.Function]*fnInfo
	globals     map[*ssa.Global]int
	nextGlobal  int
	stateCtr    int
	Bounds      map[string]int
	Workers     int
	pfs         []*Portfolio
	DumpTo      string
	OnlySolver  string
	PathFeasMs  int
	Log         func(string)
	Merged      map[string]int
	ModelHits   int
	ForkSites   map[string]int
}

func NewEngine(prog *ssa.Program, cfg Config) *Engine {
	if cfg.FeasMs == 0 {
		cfg.FeasMs = 5000
	}
	if cfg.AssertMs == 0 {
		cfg.AssertMs = 60000
	}
	if cfg.LoopCap == 0 {
		cfg.LoopCap = 300
	}
	if cfg.MaxSteps == 0 {
		cfg.MaxSteps = 3_000_000
	}
	if cfg.MaxPaths == 0 {
		cfg.MaxPaths = 20000
	}
	return &Engine{Prog: prog, Cfg: cfg, Covers: map[string]int{}, CoverModels: map[string]*Scenario{},
		Paths: map[string]int{}, FnsExecuted: map[string]int{}, IntrUsed: map[string]int{}, Unsupp: map[string]int{},
		Overflow: map[string]int{}, PanicSites: map[string]int{}, fnInfos: map[*ssa.Function]*fnInfo{},
		globals: map[*ssa.Global]int{}, Bounds: map[string]int{}, Merged: map[string]int{}, ForkSites: map[string]int{}}
}

func (e *Engine) logf(format string, a ...interface{}) {
	if e.Cfg.Verbose {
		fmt.Fprintf(os.Stderr, format+"\n", a...)
	}
}

func (e *Engine) info(fn *ssa.Function) *fnInfo {
	e.mu.Lock()
	defer e.mu.Unlock()
	fi, ok := e.fnInfos[fn]
	if !ok {
		fi = newFnInfo(fn)
		e.fnInfos[fn] = fi
		e.FnsExecuted[fn.String()]++
	}
	return fi
}

func (e *Engine) globalObj(g *ssa.Global) int {
	e.mu.Lock()
	defer e.mu.Unlock()
	id, ok := e.globals[g]
	if !ok {
		e.nextGlobal--
		id = e.nextGlobal
		e.globals[g] = id
	}
	return id
}

// ---------- running

func (e *Engine) NewState() *State {
	return &State{own: map[int]Value{}, W: newWorld(), InitDone: map[*ssa.Package]bool{}, model: &CachedModel{vals: map[int]MVal{}}}
}

// RunHarness explores all paths of fn (no params) from state st with a pool of workers.
func (e *Engine) RunHarness(st *State, fn *ssa.Function) {
	if e.Workers <= 0 {
		e.Workers = 1
	}
	for len(e.pfs) < e.Workers {
		pf := NewPortfolio()
		pf.DumpTo, pf.Only = e.DumpTo, e.OnlySolver
		e.pfs = append(e.pfs, pf)
	}
	st.pf = e.pfs[0]
	e.pushFrame(st, fn, nil, nil, nil)
	st.top().Barrier = "top"
	var mu sync.Mutex
	cond := sync.NewCond(&mu)
	work := []*State{st}
	active := 0
	npaths := 0
	stop := false
	var wg sync.WaitGroup
	for wi := 0; wi < e.Workers; wi++ {
		wg.Add(1)
		go func(pf *Portfolio) {
			defer wg.Done()
			for {
				mu.Lock()
				for len(work) == 0 && active > 0 && !stop {
					cond.Wait()
				}
				if stop || (len(work) == 0 && active == 0) {
					mu.Unlock()
					cond.Broadcast()
					return
				}
				s := work[len(work)-1]
				work = work[:len(work)-1]
				active++
				mu.Unlock()
				s.pf = pf
				for s != nil {
					succ := e.runState(s)
					if succ == nil {
						e.finishPath(s)
						mu.Lock()
						npaths++
						if npaths >= e.Cfg.MaxPaths && !stop {
							stop = true
							e.mu.Lock()
							e.Unsupp[fmt.Sprintf("path cap %d reached with %d states pending", e.Cfg.MaxPaths, len(work))]++
							e.Paths["unexplored"] += len(work)
							e.mu.Unlock()
						}
						mu.Unlock()
						s = nil
						break
					}
					if len(succ) == 0 {
						s = nil
						break
					}
					// continue with the first successor, share the rest
					mu.Lock()
					for i := len(succ) - 1; i >= 1; i-- {
						work = append(work, succ[i])
					}
					mu.Unlock()
					cond.Broadcast()
					s = succ[0]
					s.pf = pf
				}
				mu.Lock()
				active--
				mu.Unlock()
				cond.Broadcast()
			}
		}(e.pfs[wi])
	}
	wg.Wait()
}

// Close stops the solver processes.
func (e *Engine) Close() {
	for _, pf := range e.pfs {
		pf.Close()
	}
}

// SolverStats aggregates over the worker portfolios.
func (e *Engine) SolverStats() map[string]interface{} {
	tm := map[string]float64{}
	wins := map[string]int64{}
	var q, ch, sat, unsat, unk, errs, dis int64
	for _, pf := range e.pfs {
		st := &pf.Stats
		q += st.Queries
		ch += st.CacheHits
		sat += st.Sat
		unsat += st.Unsat
		unk += st.UnknownN
		errs += st.Errors
		dis += st.Disagree
		for k, v := range st.TimeNs {
			tm[k] += float64(*v) / 1e9
		}
		for k, v := range st.Wins {
			wins[k] += *v
		}
	}
	return map[string]interface{}{"queries": q, "cache_hits": ch, "sat": sat, "unsat": unsat, "unknown": unk, "errors": errs,
		"disagreements": dis, "time_s": tm, "wins": wins}
}

func (e *Engine) finishPath(s *State) {
	e.mu.Lock()
	defer e.mu.Unlock()
	e.Paths[s.Status.String()]++
	e.Steps += int64(s.Steps)
	switch s.Status {
	case Unsupported, Unwound:
		e.Unsupp[s.Msg]++
	case Panicked:
		e.PanicSites[s.Msg]++
	}
	if e.Cfg.Verbose {
		fmt.Fprintf(os.Stderr, "path %d: %s %s (steps %d, pc %d)\n", s.ID, s.Status, s.Msg, s.Steps, pcLen(s))
	}
}

func pcLen(s *State) int {
	if s.PC == nil {
		return 0
	}
	return s.PC.n
}

// runState steps s until it terminates (returns nil) or forks (returns successors).
func (e *Engine) runState(s *State) []*State {
	for s.Status == Running {
		succ := e.stepGuard(s)
		if succ != nil {
			return succ
		}
		if s.Steps > e.Cfg.MaxSteps {
			s.Status = Unwound
			s.Msg = "step cap"
		}
	}
	return nil
}

// runNested runs s until the frame count drops back to depth (used for init and merging without forks).
func (e *Engine) runNested(s *State, depth int) {
	for s.Status == Running && len(s.Frames) > depth {
		succ := e.stepGuard(s)
		if succ != nil {
			throwf("fork inside nested deterministic run")
		}
	}
}

func (e *Engine) stepGuard(s *State) (succ []*State) {
	defer func() {
		if r := recover(); r != nil {
			switch x := r.(type) {
			case unsup:
				if s.InitMode > 0 && e.unwindInit(s, x.msg) {
					succ = nil
					return
				}
				s.Status = Unsupported
				s.Msg = x.msg + " @ " + e.where(s)
			case goPanic:
				if s.InitMode > 0 && e.unwindInit(s, "panic: "+x.msg) {
					succ = nil
					return
				}
				succ = e.doPanic(s, x.msg)
			default:
				panic(r)
			}
		}
	}()
	return e.step(s)
}

func (e *Engine) where(s *State) string {
	if len(s.Frames) == 0 {
		return "?"
	}
	var parts []string
	for i := len(s.Frames) - 1; i >= 0 && len(parts) < 4; i-- {
		f := s.Frames[i]
		pos := ""
		if f.Block != nil && f.PC < len(f.Block.Instrs) {
			p := e.Prog.Fset.Position(f.Block.Instrs[f.PC].Pos())
			if p.IsValid() {
				pos = fmt.Sprintf(":%d", p.Line)
			}
		}
		parts = append(parts, shortFn(f.Fn)+pos)
	}
	return strings.Join(parts, " < ")
}

func shortFn(fn *ssa.Function) string {
	s := fn.String()
	s = strings.ReplaceAll(s, "github.com/jackalLabs/canine-chain/v4/", "")
	s = strings.ReplaceAll(s, "github.com/cosmos/cosmos-sdk/", "sdk/")
	return s
}

// doPanic handles a Go-level panic: unwind to the nearest try/deliver barrier or end the path.
func (e *Engine) doPanic(s *State, msg string) []*State {
	site := msg + " @ " + e.where(s)
	for i := len(s.Frames) - 1; i >= 0; i-- {
		f := s.Frames[i]
		if f.Barrier == "try" || f.Barrier == "deliver" {
			// pop frames above and including i; deliver result "panicked" to caller
			onret := f.OnRet
			retTo := f.RetTo
			e.mu.Lock()
			e.PanicSites["caught by "+f.Barrier+": "+site]++
			e.mu.Unlock()
			s.Frames = s.Frames[:i]
			var rv Value
			if onret != nil {
				rv = onret(s, &PanicResult{Msg: site})
			}
			if len(s.Frames) > 0 && retTo != nil {
				c := s.top()
				c.Locals[c.Info.idx[retTo]] = rv
			}
			return nil
		}
	}
	s.Status = Panicked
	s.Msg = site
	return nil
}

// PanicResult is passed to OnRet callbacks when the callee panicked.
type PanicResult struct{ Msg string }

// unwindInit: a failure inside a package initialiser: unwind to the init frame, poison the pending value.
func (e *Engine) unwindInit(s *State, why string) bool {
	for i := len(s.Frames) - 1; i >= 0; i-- {
		f := s.Frames[i]
		if f.Barrier == "init" {
			s.Frames = s.Frames[:i+1]
			// the instruction at f.PC failed (either itself or its callee); poison its value and move on
			in := f.Block.Instrs[f.PC]
			if v, ok := in.(ssa.Value); ok {
				f.Locals[f.Info.idx[v]] = &PoisonV{why}
			}
			switch in.(type) {
			case *ssa.If, *ssa.Jump, *ssa.Return, *ssa.Panic:
				// cannot continue this initialiser: abandon it
				s.Frames = s.Frames[:i]
				e.logf("init of %s abandoned: %s", f.Fn.Pkg.Pkg.Path(), why)
				return true
			}
			if st, ok := in.(*ssa.Store); ok {
				// store of a poisoned value: write poison to the target if it's a global
				if g, ok := st.Addr.(*ssa.Global); ok {
					s.hset(e.globalObj(g), &PoisonV{why})
				}
			}
			f.PC++
			return true
		}
	}
	return false
}

// ---------- frames and calls

func (e *Engine) pushFrame(s *State, fn *ssa.Function, args []Value, bind []Value, retTo ssa.Value) *Frame {
	// Build() is idempotent and blocks until the package's functions are complete (another worker may
	// be building it right now: never look at fn.Blocks before)
	if fn.Pkg != nil {
		fn.Pkg.Build()
	}
	if fn.Blocks == nil {
		throwf("no body: %s", fn.String())
	}
	if len(s.Frames) > 400 {
		throwf("stack depth")
	}
	fi := e.info(fn)
	fr := &Frame{Fn: fn, Info: fi, Block: fn.Blocks[0], Locals: make([]Value, fi.n), RetTo: retTo}
	if len(args) != len(fn.Params) {
		throwf("arity mismatch calling %s: %d vs %d", fn.String(), len(args), len(fn.Params))
	}
	for i, p := range fn.Params {
		fr.Locals[fi.idx[p]] = args[i]
	}
	for i, fv := range fn.FreeVars {
		fr.Locals[fi.idx[fv]] = bind[i]
	}
	s.Frames = append(s.Frames, fr)
	if e.Cfg.Verbose && s.InitMode == 0 {
		s.Trace = append(s.Trace, strings.Repeat(" ", len(s.Frames))+shortFn(fn))
	}
	return fr
}

func (e *Engine) get(s *State, fr *Frame, v ssa.Value) Value {
	switch x := v.(type) {
	case *ssa.Const:
		return e.constValue(x)
	case *ssa.Global:
		e.ensureInit(s, x.Pkg)
		id := e.globalObj(x)
		if _, ok := s.hget(id); !ok {
			s.hset(id, zeroValue(x.Type().(*types.Pointer).Elem()))
		}
		return &Ptr{Obj: id}
	case *ssa.Function:
		return &FuncV{Fn: x}
	case *ssa.Builtin:
		return &FuncV{Intr: "builtin:" + x.Name()}
	}
	i, ok := fr.Info.idx[v]
	if !ok {
		throwf("unknown ssa value %s in %s", v.Name(), fr.Fn.String())
	}
	r := fr.Locals[i]
	if r == nil {
		throwf("unset ssa value %s in %s", v.Name(), fr.Fn.String())
	}
	return r
}

func (e *Engine) constValue(c *ssa.Const) Value {
	t := c.Type()
	if c.Value == nil {
		return zeroValue(t)
	}
	switch u := t.Underlying().(type) {
	case *types.Basic:
		switch {
		case u.Info()&types.IsBoolean != 0:
			return MkBool(constant.BoolVal(c.Value))
		case u.Info()&types.IsInteger != 0:
			v := constant.ToInt(c.Value)
			if bi, ok := constant.Val(v).(*big.Int); ok {
				return MkInt(bi)
			}
			if i64, ok := constant.Val(v).(int64); ok {
				return MkI(i64)
			}
			throwf("int const %v", c.Value)
		case u.Info()&types.IsString != 0:
			return MkStr(constant.StringVal(c.Value))
		case u.Info()&types.IsFloat != 0:
			f, _ := constant.Float64Val(c.Value)
			return &FloatV{F: f}
		}
	}
	throwf("const of type %s", t)
	return nil
}

func (e *Engine) ensureInit(s *State, pkg *ssa.Package) {
	if pkg == nil || s.InitDone[pkg] {
		return
	}
	s.InitDone[pkg] = true
	initFn := pkg.Func("init")
	if initFn == nil {
		return
	}
	pkg.Build()
	if initFn.Blocks == nil {
		return
	}
	depth := len(s.Frames)
	fr := e.pushFrame(s, initFn, nil, nil, nil)
	fr.Barrier = "init"
	fr.InitPkg = pkg
	s.InitMode++
	// mark init$guard true so the body runs
	e.runNested(s, depth)
	s.InitMode--
	if s.Status != Running {
		// init must not kill the path
		e.logf("init of %s ended with %s %s", pkg.Pkg.Path(), s.Status, s.Msg)
		s.Status = Running
		s.Msg = ""
		s.Frames = s.Frames[:depth]
	}
}

func (e *Engine) setLocal(fr *Frame, v ssa.Value, val Value) {
	fr.Locals[fr.Info.idx[v]] = val
}

// fork creates successor states for outcomes whose condition is feasible.
type Outcome struct {
	Cond  *Term
	Ret   Value
	Do    func(st *State)
	Panic string
	Unsup string
}

func (e *Engine) feasible(s *State, c *Term) Verdict {
	v, _ := e.feasibleM(s, c)
	return v
}

// feasibleM decides whether pc && c is satisfiable and, if so, returns a model of the whole pc && c
// when one is available (nil otherwise). A cached model that already satisfies c answers without a solver.
func (e *Engine) feasibleM(s *State, c *Term) (Verdict, *CachedModel) {
	if c == TTrue {
		return Sat, s.model
	}
	if c == TFalse {
		return Unsat, nil
	}
	if s.model != nil && !NoModelReuse {
		if v, ok := s.model.Eval(c); ok && *v.B {
			e.mu.Lock()
			e.ModelHits++
			e.mu.Unlock()
			return Sat, s.model
		}
	}
	// the path condition is satisfiable (invariant of exploration), so only the constraints that share
	// symbols with c can make pc && c unsatisfiable (constraint independence)
	pc := s.pcTerms()
	// literally part of the path condition (or its negation is): no solver needed
	nc := Not(c)
	for _, t := range pc {
		if t == c {
			return Sat, s.model
		}
		if t == nc {
			return Unsat, nil
		}
	}
	ms := e.Cfg.FeasMs
	if s.mergeDepth > 0 && ms > 400 {
		ms = 400
	}
	want := s.model != nil && !NoModelReuse
	coarse := append(Slice(pc, c), c)
	// 1. the finer cut (connected through variables only): unsat is sound, sat needs validation
	if fine := append(SliceVars(pc, c), c); len(fine) < len(coarse) {
		v, m, syms, _ := s.pf.CheckSyms(fine, ms, want)
		if v == Unsat {
			return Unsat, nil
		}
		if v == Sat && want && m != nil {
			cm := NewCachedModel(s.model, m, syms)
			if modelSatisfies(cm, pc) && modelSatisfies(cm, []*Term{c}) {
				return Sat, cm
			}
		}
	}
	v, m, syms, _ := s.pf.CheckSyms(coarse, ms, want)
	if v == Unknown {
		e.mu.Lock()
		e.FeasUnknown++
		if os.Getenv("GOSYM_FORKS") != "" {
			e.ForkSites["FEAS-UNKNOWN "+e.where(s)+" :: "+clip(c.String(), 300)]++
		}
		e.mu.Unlock()
	}
	if v == Sat && want && m != nil {
		cm := NewCachedModel(s.model, m, syms)
		if modelSatisfies(cm, pc) {
			return v, cm
		}
		return v, nil
	}
	return v, nil
}

func clip(s string, n int) string {
	if len(s) > n {
		return s[:n] + "..."
	}
	return s
}

// modelSatisfies: every constraint evaluates to true under the model (missing values count as failure).
func modelSatisfies(cm *CachedModel, ts []*Term) bool {
	memo := map[int]MVal{}
	for _, t := range ts {
		v, ok := cm.eval(t, memo)
		if !ok || v.B == nil || !*v.B {
			return false
		}
	}
	return true
}

// decide replaces a condition by true/false when the path condition determines it (two cheap queries).
func (e *Engine) decide(s *State, c *Term) *Term {
	if c.IsConst() || s.InitMode > 0 {
		return c
	}
	if s.model != nil {
		if v, ok := s.model.Eval(c); ok {
			// the cached model witnesses one side; only the other side needs the solver
			if *v.B {
				if e.feasible(s, Not(c)) == Unsat {
					return TTrue
				}
				return c
			}
			if e.feasible(s, c) == Unsat {
				return TFalse
			}
			return c
		}
	}
	if e.feasible(s, c) == Unsat {
		return TFalse
	}
	if e.feasible(s, Not(c)) == Unsat {
		return TTrue
	}
	return c
}

// NoModelReuse disables answering feasibility questions from a cached model (diagnostics).
var NoModelReuse = os.Getenv("GOSYM_NOMODEL") != ""

// applyOutcomes continues s with the outcomes of the instruction `in` whose result value is res (may be nil).
func (e *Engine) applyOutcomes(s *State, fr *Frame, res ssa.Value, outs []Outcome) []*State {
	if s.InitMode > 0 && len(outs) != 1 {
		// deterministic mode: take the first non-false outcome with constant condition
		for _, o := range outs {
			if o.Cond == nil || o.Cond == TTrue {
				outs = []Outcome{o}
				break
			}
		}
		if len(outs) != 1 {
			throwf("symbolic fork during init")
		}
	}
	var live []Outcome
	var models []*CachedModel
	for i, o := range outs {
		if o.Cond == nil {
			o.Cond = TTrue
		}
		if o.Cond == TFalse {
			continue
		}
		// the last remaining candidate needs no check if nothing else was feasible (pc is feasible);
		// a model for it is still looked for so that later questions can be answered from it
		if i == len(outs)-1 && len(live) == 0 {
			live = append(live, o)
			if s.InitMode > 0 || o.Cond == TTrue {
				models = append(models, s.model)
			} else {
				v, m := e.feasibleM(s, o.Cond)
				if v == Unsat {
					s.Status = Infeasible
					s.Msg = "no feasible outcome"
					return nil
				}
				models = append(models, m)
			}
			break
		}
		v, m := e.feasibleM(s, o.Cond)
		if v != Unsat {
			live = append(live, o)
			models = append(models, m)
		}
	}
	if len(live) == 0 {
		s.Status = Infeasible
		s.Msg = "no feasible outcome"
		return nil
	}
	apply := func(st *State, o Outcome) {
		f := st.top()
		st.addPC(o.Cond)
		if o.Unsup != "" {
			st.Status = Unsupported
			st.Msg = o.Unsup + " @ " + e.where(st)
			return
		}
		if o.Panic != "" {
			succ := e.doPanic(st, o.Panic)
			_ = succ
			return
		}
		if o.Do != nil {
			o.Do(st)
		}
		if res != nil && o.Ret != nil {
			rv := o.Ret
			if lr, ok := rv.(*lazyRetV); ok {
				rv = lr.f()
			}
			f.Locals[f.Info.idx[res]] = rv
		}
		f.PC++
	}
	if len(live) == 1 {
		// in place; careful: apply uses st.top() which must be fr
		s.model = models[0]
		e.applyGuard(s, func() { apply(s, live[0]) })
		return nil
	}
	e.mu.Lock()
	e.ForkSites[fmt.Sprintf("x%d %s", len(live), e.where(s))]++
	e.mu.Unlock()
	var succ []*State
	for i, o := range live {
		var ns *State
		if i == len(live)-1 {
			ns = s
		} else {
			ns = s.clone()
			e.mu.Lock()
			e.stateCtr++
			ns.ID = e.stateCtr
			e.mu.Unlock()
		}
		ns.Forks++
		ns.model = models[i]
		oo := o
		e.applyGuard(ns, func() { apply(ns, oo) })
		succ = append(succ, ns)
	}
	return succ
}

func (e *Engine) applyGuard(s *State, f func()) {
	defer func() {
		if r := recover(); r != nil {
			switch x := r.(type) {
			case unsup:
				s.Status = Unsupported
				s.Msg = x.msg + " @ " + e.where(s)
			case goPanic:
				e.doPanic(s, x.msg)
			default:
				panic(r)
			}
		}
	}()
	f()
}

// ---------- the interpreter step

func (e *Engine) step(s *State) []*State {
	fr := s.top()
	if fr.PC >= len(fr.Block.Instrs) {
		throwf("fell off block")
	}
	in := fr.Block.Instrs[fr.PC]
	s.Steps++
	switch x := in.(type) {
	case *ssa.DebugRef:
		fr.PC++
	case *ssa.Alloc:
		id := s.alloc(zeroValue(x.Type().(*types.Pointer).Elem()))
		e.setLocal(fr, x, &Ptr{Obj: id})
		fr.PC++
	case *ssa.Phi:
		// evaluate all phis of the block simultaneously
		idx := -1
		for i, p := range fr.Block.Preds {
			if p == fr.Prev {
				idx = i
				break
			}
		}
		if idx < 0 {
			throwf("phi without pred")
		}
		var vals []Value
		var phis []*ssa.Phi
		for _, in2 := range fr.Block.Instrs[fr.PC:] {
			p, ok := in2.(*ssa.Phi)
			if !ok {
				break
			}
			phis = append(phis, p)
			vals = append(vals, e.get(s, fr, p.Edges[idx]))
		}
		for i, p := range phis {
			e.setLocal(fr, p, vals[i])
		}
		fr.PC += len(phis)
	case *ssa.BinOp:
		return e.binop(s, fr, x)
	case *ssa.UnOp:
		return e.unop(s, fr, x)
	case *ssa.Call:
		return e.call(s, fr, x.Common(), x)
	case *ssa.Defer:
		c := x.Common()
		var d deferred
		if c.IsInvoke() {
			d.fn = e.get(s, fr, c.Value)
			d.method = c.Method
		} else {
			d.fn = e.get(s, fr, c.Value)
		}
		for _, a := range c.Args {
			d.args = append(d.args, e.get(s, fr, a))
		}
		fr.Defers = append(fr.Defers, d)
		fr.PC++
	case *ssa.RunDefers:
		if len(fr.Defers) == 0 {
			fr.PC++
			return nil
		}
		d := fr.Defers[len(fr.Defers)-1]
		fr.Defers = fr.Defers[:len(fr.Defers)-1]
		fr.PC-- // re-execute RunDefers after the deferred call returns (callValue advances PC)
		return e.callValue(s, fr, d.fn, d.method, d.args, nil, x.Pos())
	case *ssa.Go, *ssa.Select, *ssa.Send, *ssa.MakeChan:
		throwf("concurrency construct %T", in)
	case *ssa.ChangeInterface:
		e.setLocal(fr, x, e.get(s, fr, x.X))
		fr.PC++
	case *ssa.ChangeType:
		e.setLocal(fr, x, e.get(s, fr, x.X))
		fr.PC++
	case *ssa.Convert:
		e.setLocal(fr, x, e.convert(s, e.get(s, fr, x.X), x.X.Type(), x.Type()))
		fr.PC++
	case *ssa.MakeInterface:
		e.setLocal(fr, x, &IfaceV{T: x.X.Type(), V: e.get(s, fr, x.X)})
		fr.PC++
	case *ssa.MakeClosure:
		var bind []Value
		for _, b := range x.Bindings {
			bind = append(bind, e.get(s, fr, b))
		}
		e.setLocal(fr, x, &FuncV{Fn: x.Fn.(*ssa.Function), Bind: bind})
		fr.PC++
	case *ssa.MakeMap:
		id := s.alloc(&MapObj{})
		e.setLocal(fr, x, &MapRef{Obj: id})
		fr.PC++
	case *ssa.MakeSlice:
		ln := e.concreteInt(s, e.get(s, fr, x.Len), "make len")
		cp := e.concreteInt(s, e.get(s, fr, x.Cap), "make cap")
		et := x.Type().Underlying().(*types.Slice).Elem()
		if isByteSlice(x.Type()) {
			e.setLocal(fr, x, &BytesV{T: MkStr(strings.Repeat("\x00", ln)), NilT: TFalse})
		} else {
			el := make([]Value, cp)
			for i := range el {
				el[i] = zeroValue(et)
			}
			id := s.alloc(&ArrayV{el})
			e.setLocal(fr, x, &SliceV{Arr: id, Off: 0, Len: ln, Cap: cp})
		}
		fr.PC++
	case *ssa.FieldAddr:
		p := e.get(s, fr, x.X).(*Ptr)
		if p.Nil {
			panic(goPanic{"nil pointer dereference"})
		}
		e.setLocal(fr, x, p.Sub(x.Field))
		fr.PC++
	case *ssa.Field:
		v := e.get(s, fr, x.X)
		sv, ok := v.(*StructV)
		if !ok {
			throwf("Field of %T (%s)", v, x.X.Type())
		}
		e.setLocal(fr, x, sv.F[x.Field])
		fr.PC++
	case *ssa.IndexAddr:
		return e.indexAddr(s, fr, x)
	case *ssa.Index:
		return e.index(s, fr, x)
	case *ssa.Lookup:
		return e.lookup(s, fr, x)
	case *ssa.Slice:
		return e.slice(s, fr, x)
	case *ssa.Store:
		p, ok := e.get(s, fr, x.Addr).(*Ptr)
		if !ok {
			throwf("store to %T", e.get(s, fr, x.Addr))
		}
		s.store(p, e.get(s, fr, x.Val))
		fr.PC++
	case *ssa.MapUpdate:
		return e.mapUpdate(s, fr, x)
	case *ssa.TypeAssert:
		return e.typeAssert(s, fr, x)
	case *ssa.Extract:
		t, ok := e.get(s, fr, x.Tuple).(*TupleV)
		if !ok {
			throwf("extract from %T", e.get(s, fr, x.Tuple))
		}
		e.setLocal(fr, x, t.E[x.Index])
		fr.PC++
	case *ssa.Range:
		return e.rangeInstr(s, fr, x)
	case *ssa.Next:
		return e.next(s, fr, x)
	case *ssa.If:
		c, ok := e.get(s, fr, x.Cond).(*Term)
		if !ok {
			throwf("if on %T", e.get(s, fr, x.Cond))
		}
		return e.branch(s, fr, c)
	case *ssa.Jump:
		e.jump(s, fr, fr.Block.Succs[0])
	case *ssa.Return:
		var rv Value
		switch len(x.Results) {
		case 0:
		case 1:
			rv = e.get(s, fr, x.Results[0])
		default:
			t := &TupleV{}
			for _, r := range x.Results {
				t.E = append(t.E, e.get(s, fr, r))
			}
			rv = t
		}
		e.ret(s, rv)
	case *ssa.Panic:
		v := e.get(s, fr, x.X)
		msg := "panic"
		if iv, ok := v.(*IfaceV); ok && iv.T != nil {
			if t, ok := iv.V.(*Term); ok && t.IsConst() && t.Sort == SStr {
				msg = "panic: " + t.SV
			} else if o, ok := iv.V.(*OpaqueV); ok && o.Kind == "error" {
				msg = "panic: error " + fmt.Sprint(o.Data.(*ErrData).Desc)
			} else {
				msg = "panic: " + showValue(iv.V)
			}
		}
		panic(goPanic{msg})
	default:
		throwf("unsupported instruction %T", in)
	}
	return nil
}

func (e *Engine) jump(s *State, fr *Frame, to *ssa.BasicBlock) {
	if fr.Visits == nil {
		fr.Visits = map[*ssa.BasicBlock]int{}
	}
	fr.Visits[to]++
	if fr.Visits[to] > e.Cfg.LoopCap {
		s.Status = Unwound
		s.Msg = "loop cap @ " + e.where(s)
		return
	}
	fr.Prev = fr.Block
	fr.Block = to
	fr.PC = 0
}

func (e *Engine) branch(s *State, fr *Frame, c *Term) []*State {
	if c == TTrue {
		e.jump(s, fr, fr.Block.Succs[0])
		return nil
	}
	if c == TFalse {
		e.jump(s, fr, fr.Block.Succs[1])
		return nil
	}
	if s.InitMode > 0 {
		throwf("symbolic branch during init")
	}
	vt, mt := e.feasibleM(s, c)
	if vt == Unsat {
		s.addPC(Not(c))
		e.jump(s, fr, fr.Block.Succs[1])
		return nil
	}
	vf, mf := e.feasibleM(s, Not(c))
	if vf == Unsat {
		s.addPC(c)
		s.model = mt
		e.jump(s, fr, fr.Block.Succs[0])
		return nil
	}
	ns := s.clone()
	s.model, ns.model = mt, mf
	e.mu.Lock()
	e.stateCtr++
	ns.ID = e.stateCtr
	e.ForkSites["if "+e.where(s)]++
	e.mu.Unlock()
	s.Forks++
	ns.Forks++
	s.addPC(c)
	e.jump(s, s.top(), fr.Block.Succs[0])
	nfr := ns.top()
	ns.addPC(Not(c))
	e.jump(ns, nfr, nfr.Block.Succs[1])
	return []*State{s, ns}
}

func (e *Engine) ret(s *State, rv Value) {
	fr := s.top()
	s.Frames = s.Frames[:len(s.Frames)-1]
	if fr.OnRet != nil {
		rv = fr.OnRet(s, rv)
	}
	if fr.Barrier == "top" || len(s.Frames) == 0 {
		s.Status = Done
		return
	}
	if fr.Barrier == "init" {
		return
	}
	if fr.Barrier == "merge" {
		s.mergeDone = true
		s.mergeRet = rv
		return
	}
	c := s.top()
	if fr.RetTo != nil {
		c.Locals[c.Info.idx[fr.RetTo]] = rv
	}
	c.PC++
}

func (e *Engine) concreteInt(s *State, v Value, what string) int {
	t, ok := v.(*Term)
	if !ok || !t.isI() || !t.IV.IsInt64() {
		throwf("symbolic %s", what)
	}
	return int(t.IV.Int64())
}

// ---------- conversions

func (e *Engine) convert(s *State, v Value, from, to types.Type) Value {
	fu, tu := from.Underlying(), to.Underlying()
	_, _, fromInt := intKind(from)
	tbits, tsigned, toInt := intKind(to)
	if fromInt && toInt {
		t := v.(*Term)
		return e.wrap(s, t, tbits, tsigned, "convert")
	}
	if tb, ok := tu.(*types.Basic); ok && tb.Info()&types.IsString != 0 {
		switch x := v.(type) {
		case *BytesV:
			return x.T
		case *Term:
			if x.Sort == SStr {
				return x
			}
			if x.Sort == SInt { // string(rune)
				if x.isI() {
					return MkStr(string(rune(x.IV.Int64())))
				}
				throwf("string(symbolic rune)")
			}
		case *SliceV: // []rune
			throwf("string([]rune)")
		}
	}
	if isByteSlice(to) {
		switch x := v.(type) {
		case *Term:
			if x.Sort == SStr {
				return &BytesV{T: x, NilT: TFalse}
			}
		case *BytesV:
			return x
		}
	}
	if _, ok := fu.(*types.Basic); ok {
		if tb, ok := tu.(*types.Basic); ok && tb.Info()&types.IsFloat != 0 {
			switch x := v.(type) {
			case *FloatV:
				return x
			case *Term:
				if x.isI() {
					f, _ := new(big.Float).SetInt(x.IV).Float64()
					return &FloatV{F: f}
				}
				return &FloatV{Unknown: true}
			}
		}
		if toInt {
			if f, ok := v.(*FloatV); ok {
				return MkI(int64(f.F))
			}
		}
	}
	if _, ok := tu.(*types.Pointer); ok {
		return v
	}
	if types.Identical(fu, tu) {
		return v
	}
	throwf("convert %s -> %s", from, to)
	return nil
}

// wrap reduces an exact integer term to the given width, dropping the reduction when it cannot overflow.
func (e *Engine) wrap(s *State, t *Term, bits int, signed bool, site string) *Term {
	lo, hi := intRange(bits, signed)
	tlo, thi := Bounds(t)
	if tlo != nil && thi != nil && tlo.Cmp(lo) >= 0 && thi.Cmp(hi) <= 0 {
		return t
	}
	if t.isI() {
		m := new(big.Int).Mod(t.IV, pow2(uint(bits)))
		if signed && m.Cmp(hi) > 0 {
			m.Sub(m, pow2(uint(bits)))
		}
		return MkInt(m)
	}
	out := Or(Lt(t, MkInt(lo)), Lt(MkInt(hi), t))
	if !e.Cfg.NoWrapCheck && s != nil {
		if e.feasible(s, out) == Unsat {
			return t
		}
		e.mu.Lock()
		e.Overflow[site+" @ "+e.where(s)]++
		e.mu.Unlock()
	}
	m := pow2(uint(bits))
	// if within one modulus of the range use ite form, else mod form
	if tlo != nil && thi != nil && tlo.Cmp(new(big.Int).Sub(lo, m)) >= 0 && thi.Cmp(new(big.Int).Add(hi, m)) <= 0 {
		return Ite(Lt(MkInt(hi), t), Sub(t, MkInt(m)), Ite(Lt(t, MkInt(lo)), Add(t, MkInt(m)), t))
	}
	if signed {
		h := pow2(uint(bits - 1))
		return Sub(Mod(Add(t, MkInt(h)), MkInt(m)), MkInt(h))
	}
	return Mod(t, MkInt(m))
}

// ---------- BinOp / UnOp

func (e *Engine) binop(s *State, fr *Frame, x *ssa.BinOp) []*State {
	a, b := e.get(s, fr, x.X), e.get(s, fr, x.Y)
	res, outs := e.binopVal(s, x.Op, a, b, x.X.Type(), x.Y.Type())
	if outs != nil {
		return e.applyOutcomes(s, fr, x, outs)
	}
	e.setLocal(fr, x, res)
	fr.PC++
	return nil
}

func truncDiv(a, b *Term) *Term {
	alo, _ := Bounds(a)
	blo, bhi := Bounds(b)
	aNonNeg := alo != nil && alo.Sign() >= 0
	bPos := blo != nil && blo.Sign() > 0
	bNeg := bhi != nil && bhi.Sign() < 0
	switch {
	case aNonNeg && bPos:
		return Div(a, b)
	case bPos:
		return Ite(Le(MkI(0), a), Div(a, b), Neg(Div(Neg(a), b)))
	case aNonNeg && bNeg:
		return Neg(Div(a, Neg(b)))
	case bNeg:
		return Ite(Le(MkI(0), a), Neg(Div(a, Neg(b))), Div(Neg(a), Neg(b)))
	}
	return Ite(Le(MkI(0), a),
		Ite(Lt(MkI(0), b), Div(a, b), Neg(Div(a, Neg(b)))),
		Ite(Lt(MkI(0), b), Neg(Div(Neg(a), b)), Div(Neg(a), Neg(b))))
}

func truncRem(a, b *Term) *Term {
	alo, _ := Bounds(a)
	blo, _ := Bounds(b)
	if alo != nil && alo.Sign() >= 0 && blo != nil && blo.Sign() > 0 {
		return Mod(a, b)
	}
	return Sub(a, Mul(b, truncDiv(a, b)))
}

func (e *Engine) binopVal(s *State, op token.Token, a, b Value, ta, tb types.Type) (Value, []Outcome) {
	// integer / string / bool terms
	at, aok := a.(*Term)
	bt, bok := b.(*Term)
	if aok && bok {
		bits, signed, isInt := intKind(ta)
		switch {
		case isInt:
			switch op {
			case token.ADD:
				return e.wrap(s, Add(at, bt), bits, signed, "add"), nil
			case token.SUB:
				return e.wrap(s, Sub(at, bt), bits, signed, "sub"), nil
			case token.MUL:
				return e.wrap(s, Mul(at, bt), bits, signed, "mul"), nil
			case token.QUO, token.REM:
				mkres := func() Value {
					if op == token.QUO {
						return e.wrap(s, truncDiv(at, bt), bits, signed, "quo")
					}
					return truncRem(at, bt)
				}
				z := Eq(bt, MkI(0))
				if z == TFalse {
					return mkres(), nil
				}
				if z == TTrue {
					panic(goPanic{"integer divide by zero"})
				}
				return nil, []Outcome{
					{Cond: z, Panic: "integer divide by zero"},
					{Cond: Not(z), Do: nil, Ret: lazyRet(mkres)},
				}
			case token.EQL:
				return Eq(at, bt), nil
			case token.NEQ:
				return Not(Eq(at, bt)), nil
			case token.LSS:
				return Lt(at, bt), nil
			case token.LEQ:
				return Le(at, bt), nil
			case token.GTR:
				return Lt(bt, at), nil
			case token.GEQ:
				return Le(bt, at), nil
			case token.SHL:
				if bt.isI() && bt.IV.IsInt64() && bt.IV.Int64() < 256 {
					return e.wrap(s, Mul(at, MkInt(pow2(uint(bt.IV.Int64())))), bits, signed, "shl"), nil
				}
			case token.SHR:
				if bt.isI() && bt.IV.IsInt64() && bt.IV.Int64() < 256 {
					return Div(at, MkInt(pow2(uint(bt.IV.Int64())))), nil // floor = arithmetic shift
				}
			case token.AND, token.OR, token.XOR, token.AND_NOT:
				if at.isI() && bt.isI() {
					r := new(big.Int)
					switch op {
					case token.AND:
						r.And(at.IV, bt.IV)
					case token.OR:
						r.Or(at.IV, bt.IV)
					case token.XOR:
						r.Xor(at.IV, bt.IV)
					case token.AND_NOT:
						r.AndNot(at.IV, bt.IV)
					}
					return e.wrap(s, MkInt(r), bits, signed, "bit"), nil
				}
				// x & 1, x ^ 1 on non-negative x
				if bt.isIv(1) {
					lo, _ := Bounds(at)
					if lo != nil && lo.Sign() >= 0 {
						switch op {
						case token.AND:
							return Mod(at, MkI(2)), nil
						case token.XOR:
							return Ite(Eq(Mod(at, MkI(2)), MkI(0)), Add(at, MkI(1)), Sub(at, MkI(1))), nil
						}
					}
				}
			}
			throwf("int binop %s on %v, %v", op, at, bt)
		case at.Sort == SStr:
			switch op {
			case token.ADD:
				return Concat(at, bt), nil
			case token.EQL:
				return Eq(at, bt), nil
			case token.NEQ:
				return Not(Eq(at, bt)), nil
			case token.LSS:
				return StrLt(at, bt), nil
			case token.GTR:
				return StrLt(bt, at), nil
			case token.LEQ:
				return Not(StrLt(bt, at)), nil
			case token.GEQ:
				return Not(StrLt(at, bt)), nil
			}
		case at.Sort == SBool:
			switch op {
			case token.EQL:
				return Eq(at, bt), nil
			case token.NEQ:
				return Not(Eq(at, bt)), nil
			case token.AND:
				return And(at, bt), nil
			case token.OR:
				return Or(at, bt), nil
			}
		}
		throwf("binop %s on terms of type %s", op, ta)
	}
	if fa, ok := a.(*FloatV); ok {
		fb, ok := b.(*FloatV)
		if !ok {
			throwf("float binop with %T", b)
		}
		if fa.Unknown || fb.Unknown {
			throwf("arithmetic on a float derived from a symbolic integer")
		}
		switch op {
		case token.ADD:
			return &FloatV{F: fa.F + fb.F}, nil
		case token.SUB:
			return &FloatV{F: fa.F - fb.F}, nil
		case token.MUL:
			return &FloatV{F: fa.F * fb.F}, nil
		case token.QUO:
			return &FloatV{F: fa.F / fb.F}, nil
		case token.EQL:
			return MkBool(fa.F == fb.F), nil
		case token.NEQ:
			return MkBool(fa.F != fb.F), nil
		case token.LSS:
			return MkBool(fa.F < fb.F), nil
		case token.LEQ:
			return MkBool(fa.F <= fb.F), nil
		case token.GTR:
			return MkBool(fa.F > fb.F), nil
		case token.GEQ:
			return MkBool(fa.F >= fb.F), nil
		}
	}
	if op == token.EQL || op == token.NEQ {
		eq := e.valueEq(s, a, b)
		if op == token.NEQ {
			eq = Not(eq)
		}
		return eq, nil
	}
	throwf("binop %s on %T,%T", op, a, b)
	return nil, nil
}

// lazyRet marks a return value computed only when the outcome is taken.
type lazyRetV struct{ f func() Value }

func lazyRet(f func() Value) Value { return &lazyRetV{f} }

// valueEq: Go == on non-scalar values.
func (e *Engine) valueEq(s *State, a, b Value) *Term {
	switch x := a.(type) {
	case *Term:
		if y, ok := b.(*Term); ok {
			return Eq(x, y)
		}
	case *Ptr:
		if y, ok := b.(*Ptr); ok {
			return MkBool(samePtr(x, y))
		}
	case *IfaceV:
		y, ok := b.(*IfaceV)
		if !ok {
			break
		}
		if x.T == nil || y.T == nil {
			return MkBool(x.T == nil && y.T == nil)
		}
		if !types.Identical(x.T, y.T) {
			return TFalse
		}
		return e.valueEq(s, x.V, y.V)
	case *OpaqueV:
		if y, ok := b.(*OpaqueV); ok {
			if x.Kind == "error" && y.Kind == "error" {
				return MkBool(x.Data.(*ErrData).Root() == y.Data.(*ErrData).Root() && x == y || x == y)
			}
			return MkBool(x == y)
		}
	case *StructV:
		if y, ok := b.(*StructV); ok && len(x.F) == len(y.F) {
			r := TTrue
			for i := range x.F {
				r = And(r, e.valueEq(s, x.F[i], y.F[i]))
			}
			return r
		}
	case *ArrayV:
		if y, ok := b.(*ArrayV); ok && len(x.E) == len(y.E) {
			r := TTrue
			for i := range x.E {
				r = And(r, e.valueEq(s, x.E[i], y.E[i]))
			}
			return r
		}
	case *BytesV: // arrays of bytes compare by content; slices only against nil
		if y, ok := b.(*BytesV); ok {
			isNilLit := func(v *BytesV) bool { return v.NilT == TTrue && v.T.IsConst() && v.T.SV == "" }
			if isNilLit(y) {
				return x.NilT
			}
			if isNilLit(x) {
				return y.NilT
			}
			return Eq(x.T, y.T)
		}
	case *SliceV:
		if y, ok := b.(*SliceV); ok && (x.Nil || y.Nil) {
			return MkBool(x.Nil && y.Nil)
		}
	case *MapRef:
		if y, ok := b.(*MapRef); ok && (x.Nil || y.Nil) {
			return MkBool(x.Nil && y.Nil)
		}
	case *FuncV:
		if y, ok := b.(*FuncV); ok {
			xn := x.Fn == nil && x.Intr == ""
			yn := y.Fn == nil && y.Intr == ""
			if xn || yn {
				return MkBool(xn && yn)
			}
		}
	case *TimeV:
		if y, ok := b.(*TimeV); ok {
			return Eq(x.NS, y.NS)
		}
	case *BigV:
		if y, ok := b.(*BigV); ok {
			return Eq(x.T, y.T)
		}
	}
	throwf("== on %T, %T", a, b)
	return nil
}

func (e *Engine) unop(s *State, fr *Frame, x *ssa.UnOp) []*State {
	v := e.get(s, fr, x.X)
	switch x.Op {
	case token.MUL:
		p, ok := v.(*Ptr)
		if !ok {
			throwf("deref of %T", v)
		}
		lv := s.load(p)
		if pv, ok := lv.(*PoisonV); ok && s.InitMode == 0 {
			throwf("read of poisoned global (%s)", pv.Why)
		}
		e.setLocal(fr, x, lv)
	case token.NOT:
		e.setLocal(fr, x, Not(v.(*Term)))
	case token.SUB:
		if f, ok := v.(*FloatV); ok {
			e.setLocal(fr, x, &FloatV{F: -f.F})
			break
		}
		bits, signed, _ := intKind(x.Type())
		e.setLocal(fr, x, e.wrap(s, Neg(v.(*Term)), bits, signed, "neg"))
	case token.XOR:
		t := v.(*Term)
		bits, signed, _ := intKind(x.Type())
		if signed {
			e.setLocal(fr, x, Sub(Neg(t), MkI(1)))
		} else {
			e.setLocal(fr, x, Sub(MkInt(new(big.Int).Sub(pow2(uint(bits)), big.NewInt(1))), t))
		}
	default:
		throwf("unop %s", x.Op)
	}
	fr.PC++
	return nil
}

// ---------- indexing, slicing, maps

func (e *Engine) indexAddr(s *State, fr *Frame, x *ssa.IndexAddr) []*State {
	base := e.get(s, fr, x.X)
	idx, ok := e.get(s, fr, x.Index).(*Term)
	if !ok {
		throwf("index %T", e.get(s, fr, x.Index))
	}
	var n int
	var mk func(i int) Value
	switch b := base.(type) {
	case *SliceV:
		n = b.Len
		mk = func(i int) Value { return &Ptr{Obj: b.Arr, Path: []int{b.Off + i}} }
	case *Ptr: // pointer to array
		if b.Nil {
			panic(goPanic{"nil pointer dereference"})
		}
		av := s.load(b)
		switch a := av.(type) {
		case *ArrayV:
			n = len(a.E)
		case *BytesV:
			n = e.concreteInt(s, Len(a.T), "byte array len")
		default:
			throwf("IndexAddr into %T", av)
		}
		mk = func(i int) Value { return b.Sub(i) }
	case *BytesV:
		throwf("address of []byte element")
	default:
		throwf("IndexAddr base %T", base)
	}
	if idx.isI() {
		i := int(idx.IV.Int64())
		if !idx.IV.IsInt64() || i < 0 || i >= n {
			panic(goPanic{fmt.Sprintf("index out of range [%s] with length %d", idx.IV, n)})
		}
		e.setLocal(fr, x, mk(i))
		fr.PC++
		return nil
	}
	var outs []Outcome
	for i := 0; i < n; i++ {
		outs = append(outs, Outcome{Cond: Eq(idx, MkI(int64(i))), Ret: mk(i)})
	}
	outs = append(outs, Outcome{Cond: Or(Lt(idx, MkI(0)), Le(MkI(int64(n)), idx)), Panic: "index out of range (symbolic)"})
	return e.applyOutcomes(s, fr, x, outs)
}

func (e *Engine) index(s *State, fr *Frame, x *ssa.Index) []*State {
	base := e.get(s, fr, x.X)
	idx := e.get(s, fr, x.Index).(*Term)
	switch b := base.(type) {
	case *ArrayV:
		if idx.isI() {
			i := int(idx.IV.Int64())
			if i < 0 || i >= len(b.E) {
				panic(goPanic{"index out of range"})
			}
			e.setLocal(fr, x, b.E[i])
			fr.PC++
			return nil
		}
		var outs []Outcome
		for i := range b.E {
			outs = append(outs, Outcome{Cond: Eq(idx, MkI(int64(i))), Ret: b.E[i]})
		}
		outs = append(outs, Outcome{Cond: Or(Lt(idx, MkI(0)), Le(MkI(int64(len(b.E))), idx)), Panic: "index out of range (symbolic)"})
		return e.applyOutcomes(s, fr, x, outs)
	case *Term: // string index
		return e.byteAt(s, fr, x, b, idx)
	case *BytesV:
		return e.byteAt(s, fr, x, b.T, idx)
	}
	throwf("Index of %T", base)
	return nil
}

func (e *Engine) byteAt(s *State, fr *Frame, res ssa.Value, str, idx *Term) []*State {
	inb := And(Le(MkI(0), idx), Lt(idx, Len(str)))
	if inb == TTrue {
		e.setLocal(fr, res, ToCode(StrAt(str, idx)))
		fr.PC++
		return nil
	}
	return e.applyOutcomes(s, fr, res, []Outcome{
		{Cond: inb, Ret: ToCode(StrAt(str, idx))},
		{Cond: Not(inb), Panic: "index out of range (string/bytes)"},
	})
}

func (e *Engine) lookup(s *State, fr *Frame, x *ssa.Lookup) []*State {
	base := e.get(s, fr, x.X)
	key := e.get(s, fr, x.Index)
	switch b := base.(type) {
	case *Term: // string[i]
		return e.byteAt(s, fr, x, b, key.(*Term))
	case *MapRef:
		vt := x.X.Type().Underlying().(*types.Map).Elem()
		mkRet := func(v Value, ok bool) Value {
			if x.CommaOk {
				return &TupleV{[]Value{v, MkBool(ok)}}
			}
			return v
		}
		if b.Nil {
			e.setLocal(fr, x, mkRet(zeroValue(vt), false))
			fr.PC++
			return nil
		}
		mo := s.load(&Ptr{Obj: b.Obj}).(*MapObj)
		var outs []Outcome
		miss := TTrue
		for _, en := range mo.E {
			eq := e.valueEq(s, en.K, key)
			if !eq.IsConst() {
				eq = e.decide(s, eq) // settle key aliasing against the path condition (keeps values ite-free)
			}
			if eq == TFalse {
				continue
			}
			if en.Present == nil {
				outs = append(outs, Outcome{Cond: And(miss, eq), Ret: mkRet(en.V, true)})
			} else {
				outs = append(outs, Outcome{Cond: And(miss, eq, en.Present), Ret: mkRet(en.V, true)})
				outs = append(outs, Outcome{Cond: And(miss, eq, Not(en.Present)), Ret: mkRet(zeroValue(vt), false)})
			}
			miss = And(miss, Not(eq))
			if eq == TTrue {
				break
			}
		}
		if miss != TFalse {
			if mo.Open {
				// materialise the unknown entry at this key
				var present *Term
				var val Value
				shapeCond := TTrue
				kt, kIsStr := key.(*Term)
				if mo.Src != nil && kIsStr && kt.Sort == SStr {
					// decoded from text: the content is a function of the text and the key
					present = App("jsonhas", mo.Src, kt)
					val = App("jsonval", mo.Src, kt)
				} else {
					present = FreshVar(mo.Tag+".has", SBool)
					shapes := e.freshOfType(s, vt, mo.Tag+".val", 0)
					if len(shapes) != 1 {
						throwf("open map with multi-shape values")
					}
					val = e.thaw(s, shapes[0].val)
					shapeCond = shapes[0].cond
				}
				obj := b.Obj
				rec := func(st *State) {
					cur := st.load(&Ptr{Obj: obj}).(*MapObj)
					ne := append(append([]MapEntry(nil), cur.E...), MapEntry{key, val, present})
					st.hset(obj, &MapObj{E: ne, Open: true, Tag: cur.Tag, Src: cur.Src})
					if kt, ok := key.(*Term); ok {
						st.W.Nondet = append(st.W.Nondet, NondetEntry{Tag: mo.Tag + ".key", T: kt, Kind: "mapkey"})
					}
				}
				outs = append(outs, Outcome{Cond: And(miss, shapeCond, present), Do: rec, Ret: mkRet(val, true)})
				outs = append(outs, Outcome{Cond: And(miss, Not(present)), Do: rec, Ret: mkRet(zeroValue(vt), false)})
			} else {
				outs = append(outs, Outcome{Cond: miss, Ret: mkRet(zeroValue(vt), false)})
			}
		}
		// merge scalar outcomes into one ite when all results are terms (no fork)
		if !x.CommaOk {
			allT := true
			for _, o := range outs {
				if _, ok := o.Ret.(*Term); !ok {
					allT = false
				}
			}
			if allT && len(outs) > 1 {
				r := outs[len(outs)-1].Ret.(*Term)
				for i := len(outs) - 2; i >= 0; i-- {
					r = Ite(outs[i].Cond, outs[i].Ret.(*Term), r)
				}
				e.setLocal(fr, x, r)
				fr.PC++
				return nil
			}
		}
		return e.applyOutcomes(s, fr, x, outs)
	}
	throwf("Lookup in %T", base)
	return nil
}

func (e *Engine) mapUpdate(s *State, fr *Frame, x *ssa.MapUpdate) []*State {
	m, ok := e.get(s, fr, x.Map).(*MapRef)
	if !ok {
		throwf("MapUpdate on %T", e.get(s, fr, x.Map))
	}
	if m.Nil {
		panic(goPanic{"assignment to entry in nil map"})
	}
	key, val := e.get(s, fr, x.Key), e.get(s, fr, x.Value)
	mo := s.load(&Ptr{Obj: m.Obj}).(*MapObj)
	var outs []Outcome
	miss := TTrue
	for i, en := range mo.E {
		eq := e.valueEq(s, en.K, key)
		if !eq.IsConst() {
			eq = e.decide(s, eq)
		}
		if eq == TFalse {
			continue
		}
		ii := i
		outs = append(outs, Outcome{Cond: And(miss, eq), Do: func(st *State) {
			cur := st.load(&Ptr{Obj: m.Obj}).(*MapObj)
			ne := append([]MapEntry(nil), cur.E...)
			ne[ii] = MapEntry{cur.E[ii].K, val, nil}
			st.hset(m.Obj, &MapObj{E: ne, Open: cur.Open, Tag: cur.Tag, Src: cur.Src})
		}})
		miss = And(miss, Not(eq))
		if eq == TTrue {
			break
		}
	}
	if miss != TFalse {
		outs = append(outs, Outcome{Cond: miss, Do: func(st *State) {
			cur := st.load(&Ptr{Obj: m.Obj}).(*MapObj)
			ne := append(append([]MapEntry(nil), cur.E...), MapEntry{key, val, nil})
			st.hset(m.Obj, &MapObj{E: ne, Open: cur.Open, Tag: cur.Tag, Src: cur.Src})
		}})
	}
	return e.applyOutcomes(s, fr, nil, outs)
}

type mapIter struct {
	entries []MapEntry
	pos     int
}
type strIter struct {
	s   string
	pos int
}

func (e *Engine) rangeInstr(s *State, fr *Frame, x *ssa.Range) []*State {
	v := e.get(s, fr, x.X)
	switch b := v.(type) {
	case *MapRef:
		var ents []MapEntry
		if !b.Nil {
			mo := s.load(&Ptr{Obj: b.Obj}).(*MapObj)
			if mo.Open {
				throwf("range over a map with arbitrary content")
			}
			for _, en := range mo.E {
				if en.Present != nil {
					throwf("range over a map with conditionally present entries")
				}
			}
			ents = mo.E
		}
		// Go map iteration order is unspecified: the engine may explore permutations (C06)
		perms := e.mapOrders(s, ents)
		if len(perms) == 1 {
			id := s.alloc(&OpaqueV{Kind: "mapiter", Data: &mapIter{entries: perms[0]}})
			e.setLocal(fr, x, &Ptr{Obj: id})
			fr.PC++
			return nil
		}
		var outs []Outcome
		for _, p := range perms {
			pp := p
			outs = append(outs, Outcome{Cond: TTrue, Do: func(st *State) {
				id := st.alloc(&OpaqueV{Kind: "mapiter", Data: &mapIter{entries: pp}})
				f := st.top()
				f.Locals[f.Info.idx[x]] = &Ptr{Obj: id}
			}})
		}
		return e.forkAll(s, fr, outs)
	case *Term:
		if !b.IsConst() {
			throwf("range over symbolic string")
		}
		id := s.alloc(&OpaqueV{Kind: "striter", Data: &strIter{s: b.SV}})
		e.setLocal(fr, x, &Ptr{Obj: id})
		fr.PC++
		return nil
	}
	throwf("range over %T", v)
	return nil
}

// forkAll forks into all outcomes without feasibility checks (all have cond true).
func (e *Engine) forkAll(s *State, fr *Frame, outs []Outcome) []*State {
	var succ []*State
	for i, o := range outs {
		var ns *State
		if i == len(outs)-1 {
			ns = s
		} else {
			ns = s.clone()
			e.mu.Lock()
			e.stateCtr++
			ns.ID = e.stateCtr
			e.mu.Unlock()
		}
		oo := o
		e.applyGuard(ns, func() {
			if oo.Do != nil {
				oo.Do(ns)
			}
			ns.top().PC++
		})
		succ = append(succ, ns)
	}
	return succ
}

// MapOrderMode: 0 insertion order; 1 all permutations (<=3 entries) else rotations
var MapOrderAll = false

func (e *Engine) mapOrders(s *State, ents []MapEntry) [][]MapEntry {
	if !MapOrderAll || len(ents) < 2 || s.InitMode > 0 {
		return [][]MapEntry{ents}
	}
	if len(ents) > 3 {
		// reversed and original only
		rev := make([]MapEntry, len(ents))
		for i := range ents {
			rev[len(ents)-1-i] = ents[i]
		}
		return [][]MapEntry{ents, rev}
	}
	var res [][]MapEntry
	var rec func(cur []MapEntry, rest []MapEntry)
	rec = func(cur, rest []MapEntry) {
		if len(rest) == 0 {
			res = append(res, append([]MapEntry(nil), cur...))
			return
		}
		for i := range rest {
			nr := append(append([]MapEntry(nil), rest[:i]...), rest[i+1:]...)
			rec(append(cur, rest[i]), nr)
		}
	}
	rec(nil, ents)
	return res
}

func (e *Engine) next(s *State, fr *Frame, x *ssa.Next) []*State {
	p := e.get(s, fr, x.Iter).(*Ptr)
	o := s.load(p).(*OpaqueV)
	switch it := o.Data.(type) {
	case *mapIter:
		if it.pos >= len(it.entries) {
			e.setLocal(fr, x, &TupleV{[]Value{TFalse, nil, nil}})
		} else {
			en := it.entries[it.pos]
			s.store(p, &OpaqueV{Kind: "mapiter", Data: &mapIter{entries: it.entries, pos: it.pos + 1}})
			e.setLocal(fr, x, &TupleV{[]Value{TTrue, en.K, en.V}})
		}
	case *strIter:
		if it.pos >= len(it.s) {
			e.setLocal(fr, x, &TupleV{[]Value{TFalse, MkI(0), MkI(0)}})
		} else {
			r, sz := decodeRune(it.s[it.pos:])
			s.store(p, &OpaqueV{Kind: "striter", Data: &strIter{s: it.s, pos: it.pos + sz}})
			e.setLocal(fr, x, &TupleV{[]Value{TTrue, MkI(int64(it.pos)), MkI(int64(r))}})
		}
	default:
		throwf("next on %T", o.Data)
	}
	fr.PC++
	return nil
}

func decodeRune(s string) (rune, int) {
	for i, r := range s {
		_ = i
		n := len(string(r))
		if r == 0xFFFD {
			n = 1
		}
		return r, n
	}
	return 0, 1
}

func (e *Engine) slice(s *State, fr *Frame, x *ssa.Slice) []*State {
	base := e.get(s, fr, x.X)
	getT := func(v ssa.Value) *Term {
		if v == nil {
			return nil
		}
		return e.get(s, fr, v).(*Term)
	}
	lo, hi, mx := getT(x.Low), getT(x.High), getT(x.Max)
	switch b := base.(type) {
	case *Term: // string
		return e.sliceStr(s, fr, x, b, lo, hi, false, nil)
	case *BytesV:
		return e.sliceStr(s, fr, x, b.T, lo, hi, true, b.NilT)
	case *SliceV:
		l, h, m := 0, b.Len, b.Cap
		if lo != nil {
			l = e.concreteInt(s, lo, "slice low")
		}
		if hi != nil {
			h = e.concreteInt(s, hi, "slice high")
		}
		if mx != nil {
			m = e.concreteInt(s, mx, "slice max")
		}
		if l < 0 || h < l || m < h || m > b.Cap {
			panic(goPanic{fmt.Sprintf("slice bounds out of range [%d:%d:%d] cap %d", l, h, m, b.Cap)})
		}
		if b.Nil {
			e.setLocal(fr, x, &SliceV{Nil: true})
		} else {
			e.setLocal(fr, x, &SliceV{Arr: b.Arr, Off: b.Off + l, Len: h - l, Cap: m - l})
		}
		fr.PC++
		return nil
	case *Ptr: // pointer to array
		av := s.load(b)
		switch a := av.(type) {
		case *ArrayV:
			l, h := 0, len(a.E)
			if lo != nil {
				l = e.concreteInt(s, lo, "slice low")
			}
			if hi != nil {
				h = e.concreteInt(s, hi, "slice high")
			}
			if l < 0 || h < l || h > len(a.E) {
				panic(goPanic{"slice bounds out of range"})
			}
			if len(b.Path) != 0 {
				throwf("slice of nested array")
			}
			e.setLocal(fr, x, &SliceV{Arr: b.Obj, Off: l, Len: h - l, Cap: len(a.E) - l})
			fr.PC++
			return nil
		case *BytesV:
			return e.sliceStr(s, fr, x, a.T, lo, hi, true, TFalse)
		}
		throwf("slice of pointer to %T", av)
	}
	throwf("Slice of %T", base)
	return nil
}

func (e *Engine) sliceStr(s *State, fr *Frame, x *ssa.Slice, str, lo, hi *Term, bytes bool, nilT *Term) []*State {
	n := Len(str)
	if lo == nil {
		lo = MkI(0)
	}
	if hi == nil {
		hi = n
	}
	ok := And(Le(MkI(0), lo), Le(lo, hi), Le(hi, n))
	mk := func() Value {
		r := Substr(str, lo, Sub(hi, lo))
		if bytes {
			nt := nilT
			if nt == nil {
				nt = TFalse
			}
			return &BytesV{T: r, NilT: nt}
		}
		return r
	}
	if ok == TTrue {
		e.setLocal(fr, x, mk())
		fr.PC++
		return nil
	}
	return e.applyOutcomes(s, fr, x, []Outcome{
		{Cond: ok, Ret: lazyRet(mk)},
		{Cond: Not(ok), Panic: "slice bounds out of range (string/bytes)"},
	})
}

// ---------- type assertions

func (e *Engine) typeAssert(s *State, fr *Frame, x *ssa.TypeAssert) []*State {
	iv, ok := e.get(s, fr, x.X).(*IfaceV)
	if !ok {
		throwf("TypeAssert on %T", e.get(s, fr, x.X))
	}
	okv := false
	var res Value
	if iv.T != nil {
		if _, isOpq := iv.V.(*OpaqueV); isOpq && iv.T == opaqueT {
			if types.IsInterface(x.AssertedType) {
				okv, res = true, iv
			}
		} else if types.IsInterface(x.AssertedType) {
			it := x.AssertedType.Underlying().(*types.Interface)
			if types.Implements(iv.T, it) {
				okv, res = true, iv
			}
		} else if types.Identical(iv.T, x.AssertedType) {
			okv, res = true, iv.V
		}
	}
	if x.CommaOk {
		if !okv {
			res = zeroValue(x.AssertedType)
		}
		e.setLocal(fr, x, &TupleV{[]Value{res, MkBool(okv)}})
		fr.PC++
		return nil
	}
	if !okv {
		panic(goPanic{"interface conversion failed: " + x.AssertedType.String()})
	}
	e.setLocal(fr, x, res)
	fr.PC++
	return nil
}

var opaqueT types.Type = types.NewNamed(types.NewTypeName(token.NoPos, nil, "opaque", nil), types.NewStruct(nil, nil), nil)

func sortedKeys(m map[string]int) []string {
	var ks []string
	for k := range m {
		ks = append(ks, k)
	}
	sort.Strings(ks)
	return ks
}
