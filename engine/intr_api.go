package gosym

// The harness API (package zzverif) as engine intrinsics.

import (
	"encoding/json"
	"os"
	"crypto/sha256"
	"encoding/hex"
	"fmt"
	"go/types"
	"math/big"
	"sort"
	"strings"
)

const zz = "github.com/jackalLabs/canine-chain/v4/zzverif."

// ThoroughTier is set by the driver (-tier thorough): harnesses may widen their bounds.
var ThoroughTier = false

type Scenario struct {
	Harness string                 `json:"harness"`
	Ob      string                 `json:"obligation"`
	Nondet  map[string]interface{} `json:"nondet"`
	Order   []string               `json:"order"`
	Store   []StoreRec             `json:"store,omitempty"`
	Bal     []BalRec               `json:"balances,omitempty"`
	Blocked []string               `json:"blocked,omitempty"`
	Raw     map[string]string      `json:"raw_model,omitempty"`
	Thorough bool                  `json:"thorough"`
}

type StoreRec struct {
	Store   string                 `json:"store"`
	KeyHex  string                 `json:"key_hex"`
	Present bool                   `json:"present"`
	Type    string                 `json:"type,omitempty"`
	Fields  map[string]interface{} `json:"fields,omitempty"`
	Lazy    int                    `json:"lazy"`
}

type BalRec struct {
	Table  string `json:"table"`
	K1Hex  string `json:"k1_hex"`
	K2     string `json:"k2"`
	Amount string `json:"amount"`
}

func constStr(v Value, what string) string {
	t, ok := v.(*Term)
	if !ok || !t.IsConst() || t.Sort != SStr {
		throwf("%s must be a constant string", what)
	}
	return t.SV
}

func (e *Engine) nondet(s *State, tag string, sort Sort, kind string) *Term {
	// tags are made unique per path by occurrence count
	n := 0
	for _, en := range s.W.Nondet {
		if en.Tag == tag || strings.HasPrefix(en.Tag, tag+"#") {
			n++
		}
	}
	full := tag
	if n > 0 {
		full = fmt.Sprintf("%s#%d", tag, n)
	}
	// variable names are global (hash-consed terms, bounds by variable): keep harnesses apart
	v := MkVar("nd."+sanitize(e.Harness)+"."+sanitize(full), sort)
	s.W.Nondet = append(s.W.Nondet, NondetEntry{Tag: full, T: v, Kind: kind})
	return v
}

func init() {
	reg := RegisterIntrinsic
	intN := func(bits int, signed bool) Intrinsic {
		return func(c *CallCtx, a []Value) []Outcome {
			v := c.E.nondet(c.S, constStr(a[0], "tag"), SInt, "int")
			lo, hi := intRange(bits, signed)
			SetVarBounds(v, lo, hi)
			return []Outcome{{Cond: And(Le(MkInt(lo), v), Le(v, MkInt(hi))), Ret: v}}
		}
	}
	reg(zz+"NondetInt64", intN(64, true))
	reg(zz+"NondetInt", intN(64, true))
	reg(zz+"NondetUint64", intN(64, false))
	reg(zz+"NondetInt32", intN(32, true))
	reg(zz+"NondetRange", func(c *CallCtx, a []Value) []Outcome {
		lo, hi := a[1].(*Term), a[2].(*Term)
		if !lo.isI() || !hi.isI() {
			throwf("NondetRange bounds must be constants")
		}
		v := c.E.nondet(c.S, constStr(a[0], "tag"), SInt, "int")
		SetVarBounds(v, lo.IV, hi.IV)
		return []Outcome{{Cond: And(Le(lo, v), Le(v, hi)), Ret: v}}
	})
	reg(zz+"NondetBool", func(c *CallCtx, a []Value) []Outcome {
		return ret1(c.E.nondet(c.S, constStr(a[0], "tag"), SBool, "bool"))
	})
	reg(zz+"NondetString", func(c *CallCtx, a []Value) []Outcome {
		return ret1(c.E.nondet(c.S, constStr(a[0], "tag"), SStr, "str"))
	})
	reg(zz+"NondetBytes", func(c *CallCtx, a []Value) []Outcome {
		v := c.E.nondet(c.S, constStr(a[0], "tag"), SStr, "bytes")
		return ret1(&BytesV{T: v, NilT: TFalse})
	})
	reg(zz+"NondetAddr", func(c *CallCtx, a []Value) []Outcome {
		// canonical bech32 string of an arbitrary 20-byte address
		b := c.E.nondet(c.S, constStr(a[0], "tag"), SStr, "addrbytes")
		noteAddr(c.S.W, b32encT(b), b)
		return []Outcome{{Cond: Eq(Len(b), MkI(20)), Ret: b32encT(b)}}
	})
	reg(zz+"NondetTime", func(c *CallCtx, a []Value) []Outcome {
		v := c.E.nondet(c.S, constStr(a[0], "tag"), SInt, "time")
		return ret1(&TimeV{v})
	})
	reg(zz+"NondetLen", func(c *CallCtx, a []Value) []Outcome {
		tag := constStr(a[0], "tag")
		lo, hi := c.E.concreteInt(c.S, a[1], "NondetLen lo"), c.E.concreteInt(c.S, a[2], "NondetLen hi")
		v := c.E.nondet(c.S, tag, SInt, "len")
		c.E.mu.Lock()
		if hi > c.E.Bounds[tag] {
			c.E.Bounds[tag] = hi
		}
		c.E.mu.Unlock()
		var outs []Outcome
		for i := lo; i <= hi; i++ {
			outs = append(outs, Outcome{Cond: Eq(v, MkI(int64(i))), Ret: MkI(int64(i))})
		}
		return outs
	})
	reg(zz+"And", func(c *CallCtx, a []Value) []Outcome { return ret1(And(a[0].(*Term), a[1].(*Term))) })
	reg(zz+"Or", func(c *CallCtx, a []Value) []Outcome { return ret1(Or(a[0].(*Term), a[1].(*Term))) })
	reg(zz+"Implies", func(c *CallCtx, a []Value) []Outcome { return ret1(Implies(a[0].(*Term), a[1].(*Term))) })
	reg(zz+"IsLowerASCII", func(c *CallCtx, a []Value) []Outcome { return ret1(isLowerT(a[0].(*Term))) })
	reg(zz+"Arbitrary", func(c *CallCtx, a []Value) []Outcome {
		iv := a[0].(*IfaceV)
		p, ok := iv.V.(*Ptr)
		if !ok || iv.T == nil {
			throwf("Arbitrary of %s", showValue(iv))
		}
		et := iv.T.Underlying().(*types.Pointer).Elem()
		tag := constStr(a[1], "tag")
		shapes := c.E.freshOfType(c.S, et, tag+"."+shortType(et), 0)
		var outs []Outcome
		for _, sh := range shapes {
			sh := sh
			cond := sh.cond
			// all top-level string fields pairwise distinct
			if sv, ok := sh.val.(*StructV); ok {
				var strs []*Term
				for _, f := range sv.F {
					if t, ok := f.(*Term); ok && t.Sort == SStr {
						strs = append(strs, t)
					}
				}
				for i := range strs {
					for j := i + 1; j < len(strs); j++ {
						cond = And(cond, Not(Eq(strs[i], strs[j])))
					}
				}
			}
			outs = append(outs, Outcome{Cond: cond, Do: func(st *State) { st.store(p, c.E.thaw(st, sh.val)) }})
		}
		return outs
	})
	reg(zz+"Override", func(c *CallCtx, a []Value) []Outcome {
		iv := a[1].(*IfaceV)
		f, ok := iv.V.(*FuncV)
		if !ok {
			throwf("Override stub must be a function")
		}
		c.S.W.Ghost["override:"+constStr(a[0], "function name")] = f
		return retNone()
	})
	reg(zz+"Thorough", func(c *CallCtx, a []Value) []Outcome { return ret1(MkBool(ThoroughTier)) })
	reg(zz+"Deref", func(c *CallCtx, a []Value) []Outcome {
		iv := a[0].(*IfaceV)
		p, ok := iv.V.(*Ptr)
		if !ok || iv.T == nil {
			throwf("Deref of %s", showValue(iv))
		}
		return ret1(&IfaceV{T: iv.T.Underlying().(*types.Pointer).Elem(), V: c.S.load(p)})
	})
	reg(zz+"Assume", func(c *CallCtx, a []Value) []Outcome {
		return []Outcome{{Cond: a[0].(*Term)}}
	})
	reg(zz+"Assert", func(c *CallCtx, a []Value) []Outcome {
		cond := a[0].(*Term)
		id := constStr(a[1], "assert id")
		c.E.checkObligation(c.S, id, cond)
		return []Outcome{{Cond: cond}}
	})
	reg(zz+"Cover", func(c *CallCtx, a []Value) []Outcome {
		id := constStr(a[0], "cover id")
		c.E.mu.Lock()
		first := c.E.CoverModels[id] == nil
		c.E.mu.Unlock()
		cm := c.S.model
		if cm == nil {
			cm = GuessModel(c.S.pcTerms())
			if cm != nil {
				c.S.model = cm
			}
		}
		if cm == nil || NoModelReuse {
			// no cached witness for this path: ask once (bounded) whether the path is feasible
			v, m, syms, _ := c.S.pf.CheckSyms(c.E.withEvals(c.S, c.S.pcTerms()), 4*c.E.Cfg.FeasMs, true)
			if v == Unsat {
				return []Outcome{{Cond: TFalse}}
			}
			if v != Sat {
				c.E.mu.Lock()
				c.E.Covers[id+" (feasibility unknown)"]++
				c.E.mu.Unlock()
				return retNone()
			}
			cm = NewCachedModel(nil, m, syms)
			c.S.model = cm
		}
		c.E.mu.Lock()
		c.E.Covers[id]++
		c.E.mu.Unlock()
		if first {
			if !modelCoherent(cm, c.S.pcTerms()) {
				// the witness becomes a concrete scenario: it has to come from one coherent answer
				if v, m, syms, _ := c.S.pf.CheckSyms(c.E.withEvals(c.S, c.S.pcTerms()), 4*c.E.Cfg.FeasMs, true); v == Sat {
					cm = NewCachedModel(nil, m, syms)
				}
			}
			sc := c.E.scenario(c.S, cm, id)
			c.E.mu.Lock()
			c.E.CoverModels[id] = sc
			c.E.mu.Unlock()
		}
		return retNone()
	})
	reg(zz+"Note", func(c *CallCtx, a []Value) []Outcome { return retNone() })
	// higher-order: Try / Deliver
	reg(zz+"Try", func(c *CallCtx, a []Value) []Outcome {
		f := a[0].(*FuncV)
		fr := c.E.pushFrame(c.S, f.Fn, nil, f.Bind, c.Res)
		fr.Barrier = "try"
		fr.OnRet = func(st *State, rv Value) Value {
			if _, ok := rv.(*PanicResult); ok {
				st.top().PC++ // panic path: caller continues after the Try call
				return TTrue
			}
			return TFalse
		}
		return nil
	})
	reg(zz+"Deliver", func(c *CallCtx, a []Value) []Outcome {
		f := a[0].(*FuncV)
		fr := c.E.pushFrame(c.S, f.Fn, nil, f.Bind, c.Res)
		fr.Barrier = "deliver"
		fr.Snap = c.S.W.clone()
		snap := fr.Snap
		fr.OnRet = func(st *State, rv Value) Value {
			if _, ok := rv.(*PanicResult); ok {
				restoreWorld(st, snap)
				st.top().PC++
				return tuple(&IfaceV{}, TTrue)
			}
			if iv, ok := rv.(*IfaceV); ok && iv.T != nil {
				restoreWorld(st, snap)
			}
			return tuple(rv, TFalse)
		}
		return nil
	})
	// environment handles
	reg(zz+"StoreKey", func(c *CallCtx, a []Value) []Outcome { return ret1(opq("storekey", constStr(a[0], "store name"))) })
	reg(zz+"Codec", func(c *CallCtx, a []Value) []Outcome { return ret1(opq("codec", nil)) })
	reg(zz+"Subspace", func(c *CallCtx, a []Value) []Outcome {
		return ret1(&OpaqueV{Kind: "subspace", Data: constStr(a[0], "subspace")})
	})
	reg(zz+"Ctx", func(c *CallCtx, a []Value) []Outcome {
		return ret1(&OpaqueV{Kind: "ctx", Data: &CtxData{Height: a[0].(*Term), Time: timeOf(a[1]), Gas: a[2].(*Term)}})
	})
	reg(zz+"OpenStore", func(c *CallCtx, a []Value) []Outcome {
		n := constStr(a[0], "store name")
		c.S.W.OpenStores[n] = true
		c.S.W.store(n).Open = true
		return retNone()
	})
	reg(zz+"AssumeNoKeysWithPrefix", func(c *CallCtx, a []Value) []Outcome {
		n := constStr(a[0], "store name")
		m := c.S.W.store(n)
		m.Closed = append(append([]*Term(nil), m.Closed...), a[1].(*Term))
		c.E.mu.Lock()
		c.E.Bounds["empty-prefix:"+n+":"+constStr(a[1], "prefix")] = 1
		c.E.mu.Unlock()
		return retNone()
	})
	reg(zz+"SetSliceBound", func(c *CallCtx, a []Value) []Outcome {
		c.S.W.SliceBound = c.E.concreteInt(c.S, a[0], "slice bound")
		return retNone()
	})
	reg(zz+"SetSliceBoundFor", func(c *CallCtx, a []Value) []Outcome {
		c.S.W.Ghost["slicebound:"+constStr(a[0], "field")] = a[1]
		c.E.mu.Lock()
		c.E.Bounds["slice."+constStr(a[0], "field")] = c.E.concreteInt(c.S, a[1], "bound")
		c.E.mu.Unlock()
		return retNone()
	})
	reg(zz+"WFKey", func(c *CallCtx, a []Value) []Outcome {
		sl := a[2].(*SliceV)
		var parts []string
		for i := 0; i < sl.Len; i++ {
			parts = append(parts, constStr(c.S.load(&Ptr{Obj: sl.Arr, Path: []int{sl.Off + i}}), "WFKey part"))
		}
		key := "wfkey:" + constStr(a[0], "store") + ":" + constStr(a[1], "type")
		var specs [][]string
		if old, ok := c.S.W.Ghost[key]; ok {
			specs = append(specs, old.([][]string)...)
		}
		c.S.W.Ghost[key] = append(specs, parts)
		return retNone()
	})
	reg(zz+"WFAddr", func(c *CallCtx, a []Value) []Outcome {
		sl := a[1].(*SliceV)
		var parts []string
		for i := 0; i < sl.Len; i++ {
			parts = append(parts, constStr(c.S.load(&Ptr{Obj: sl.Arr, Path: []int{sl.Off + i}}), "WFAddr field"))
		}
		c.S.W.Ghost["wfaddr:"+constStr(a[0], "type")] = parts
		return retNone()
	})
	reg(zz+"WF", func(c *CallCtx, a []Value) []Outcome {
		sl := a[1].(*SliceV)
		var parts []string
		for i := 0; i < sl.Len; i++ {
			parts = append(parts, constStr(c.S.load(&Ptr{Obj: sl.Arr, Path: []int{sl.Off + i}}), "WF clause"))
		}
		c.S.W.Ghost["wf:"+constStr(a[0], "type")] = parts
		return retNone()
	})
	reg(zz+"IsModuleAddr", func(c *CallCtx, a []Value) []Outcome { return ret1(App("ismod", a[0].(*BytesV).T)) })
	reg(zz+"RandChoiceMode", func(c *CallCtx, a []Value) []Outcome {
		c.S.W.RandChoice = a[0] == TTrue
		return retNone()
	})
	reg(zz+"ModuleAddr", func(c *CallCtx, a []Value) []Outcome {
		app := App("modaddr", a[0].(*Term))
		c.S.W.noteEval("mod", app, a[0].(*Term))
		return ret1(&BytesV{T: app, NilT: TFalse})
	})
	reg(zz+"Blocked", func(c *CallCtx, a []Value) []Outcome {
		c.S.W.noteEval("blocked", App("blocked", a[0].(*BytesV).T), a[0].(*BytesV).T)
		return ret1(App("blocked", a[0].(*BytesV).T))
	})
	reg(zz+"TypeConfusion", func(c *CallCtx, a []Value) []Outcome {
		_, ok := c.S.W.Ghost["TypeConfusion"]
		return ret1(MkBool(ok))
	})
	reg(zz+"StoreWrites", func(c *CallCtx, a []Value) []Outcome { return ret1(MkI(int64(c.S.W.Writes))) })
	reg(zz+"EventCount", func(c *CallCtx, a []Value) []Outcome { return ret1(MkI(int64(c.S.W.Events))) })
	// tables (bank balances and supply): (k1,k2) -> big.Int over an arbitrary non-negative base
	reg(zz+"TblGet", func(c *CallCtx, a []Value) []Outcome {
		tbl := constStr(a[0], "table")
		declTable(tbl)
		k1, k2 := strOf(a[1]), strOf(a[2])
		c.S.W.noteEval("tbl|"+tbl, App("tbl0_"+tbl, k1, k2), k1, k2)
		// resolve the aliasing questions against the path condition now, so that later arithmetic
		// obligations about balances are free of string reasoning
		return ret1(newBig(c.S, c.E.tblGetDecided(c.S, tbl, k1, k2)))
	})
	reg(zz+"TblSet", func(c *CallCtx, a []Value) []Outcome {
		tbl := constStr(a[0], "table")
		declTable(tbl)
		c.S.W.tblSet(tbl, strOf(a[1]), strOf(a[2]), bigOfPtr(c.S, a[3]))
		return retNone()
	})
}

func strOf(v Value) *Term {
	switch x := v.(type) {
	case *Term:
		return x
	case *BytesV:
		return x.T
	}
	throwf("string operand %T", v)
	return nil
}

func declTable(tbl string) {
	// A-BANK: initial balances are non-negative and below 2^128
	DeclareUF("tbl0_"+tbl, []Sort{SStr, SStr}, SInt, func(a *Term) []*Term {
		return []*Term{Le(MkI(0), a), Lt(a, MkInt(pow2(128)))}
	})
}

func restoreWorld(st *State, snap *World) {
	nd := st.W.Nondet
	lazy := st.W.LazyVals
	reads := map[string]*baseRead{}
	for k, m := range st.W.Stores {
		reads[k] = m.Reads
	}
	ghost := st.W.Ghost
	st.W = snap.clone()
	// knowledge about the (unchanged) base state and the inputs drawn is kept
	st.W.Nondet = nd
	st.W.LazyVals = lazy
	for k, r := range reads {
		st.W.store(k).Reads = r
	}
	for k, v := range ghost {
		if strings.HasPrefix(k, "json:") {
			st.W.Ghost[k] = v
		}
	}
}

// ---------- obligations

// noteEval records a model-relevant application (value and arguments) once.
func (w *World) noteEval(kind string, app *Term, args ...*Term) {
	tag := fmt.Sprintf("%s|%d", kind, app.ID)
	for _, e := range w.Evals {
		if e.Tag == tag {
			return
		}
	}
	w.Evals = append(w.Evals, NondetEntry{Tag: tag, T: app, Kind: "app"})
	for i, a := range args {
		w.Evals = append(w.Evals, NondetEntry{Tag: fmt.Sprintf("%s|arg%d", tag, i), T: a, Kind: "arg"})
	}
}

// withEvalsIn adds the evaluation helpers whose terms already occur in the (sliced) query.
func (e *Engine) withEvalsIn(s *State, asserts []*Term) []*Term {
	have := map[int]bool{}
	for _, a := range asserts {
		for _, x := range Symbols(a) {
			have[x] = true
		}
	}
	out := append([]*Term(nil), asserts...)
	for i, en := range s.W.Evals {
		ok := true
		for _, x := range Symbols(en.T) {
			if !have[x] {
				ok = false
				break
			}
		}
		if ok {
			ev := MkVar(fmt.Sprintf("evalx.%d", i), en.T.Sort)
			out = append(out, Eq(ev, en.T))
		}
	}
	return out
}

func (e *Engine) withEvals(s *State, asserts []*Term) []*Term {
	out := append([]*Term(nil), asserts...)
	for i, en := range s.W.Evals {
		ev := MkVar(fmt.Sprintf("evalx.%d", i), en.T.Sort)
		out = append(out, Eq(ev, en.T))
	}
	return out
}

func (e *Engine) checkObligation(s *State, id string, cond *Term) {
	r := ObResult{ID: id, PathID: s.ID, PCSize: pcLen(s)}
	if cond == TTrue {
		r.Verdict, r.Solver = "discharged", "simp"
	} else {
		// 1. the cone of influence of the negated assertion (sound: unsat of a subset of the constraints
		//    implies unsat of all of them); a model of the cone extends to the whole path condition by the
		//    cached path model (constraint independence)
		neg := Not(cond)
		var v Verdict
		var m Model
		var syms []*Term
		var who string
		var cm *CachedModel
		// 0. finest cut (variables only): only its unsat answer is used
		if fine := append(SliceVars(s.pcTerms(), neg), neg); len(fine) < pcLen(s)+1 {
			if fv, _, _, fwho := s.pf.CheckSyms(fine, e.Cfg.AssertMs/2, false); fv == Unsat {
				v, who = Unsat, fwho+"+varslice"
			}
		}
		sliced := append(Slice(s.pcTerms(), neg), neg)
		if v != Unsat && len(sliced) < pcLen(s)+1 {
			v, m, syms, who = s.pf.CheckSyms(e.withEvalsIn(s, sliced), e.Cfg.AssertMs, true)
			if v == Sat && (s.model == nil || NoModelReuse) {
				v = Unknown // a model of the cone alone proves nothing without a model of the rest: ask in full
			}
			if v == Sat {
				cm = NewCachedModel(s.model, m, syms)
				if os.Getenv("GOSYM_CHECKSLICE") != "" {
					fv, _, _, _ := s.pf.CheckSyms(append(s.pcTerms(), neg), e.Cfg.AssertMs, false)
					pv, _, _, _ := s.pf.CheckSyms(s.pcTerms(), e.Cfg.AssertMs, false)
					if fv != Sat {
						bad := 0
						for _, t := range s.pcTerms() {
							if ev, ok := s.model.Eval(t); ok && !*ev.B {
								bad++
								if bad < 4 {
									e.logfAlways("   path model falsifies: %s", t.String())
								}
							}
						}
						e.logfAlways("SLICE-CHECK %s: slice=sat full=%v pc-alone=%v slice-size=%d pc-size=%d model-falsifies=%d", id, fv, pv, len(sliced), pcLen(s), bad)
					}
				}
			}
			who += "+slice"
		}
		if v == Sat && cm != nil && (!modelSatisfies(cm, s.pcTerms()) || !modelCoherent(cm, append(s.pcTerms(), neg))) {
			cm = nil // the combined model does not extend to the whole path condition: ask in full
		}
		if v == Unknown || (v == Sat && cm == nil) {
			asserts := append(s.pcTerms(), neg)
			v, m, syms, who = s.pf.CheckSyms(e.withEvals(s, asserts), e.Cfg.AssertMs, true)
			if v == Sat {
				cm = NewCachedModel(nil, m, syms)
			}
		}
		r.Solver = who
		switch v {
		case Unsat:
			r.Verdict = "discharged"
		case Sat:
			r.Verdict = "violated"
			r.Scenario = e.scenario(s, cm, id)
		default:
			r.Verdict = "unknown"
		}
	}
	e.mu.Lock()
	e.Obs = append(e.Obs, r)
	e.mu.Unlock()
	if e.Cfg.Verbose && r.Verdict != "discharged" {
		e.logfAlways("TRACE for %s:\n%s", id, strings.Join(s.Trace, "\n"))
		sc, _ := Script(append(s.pcTerms(), Not(cond)))
		e.logfAlways("QUERY for %s:\n%s", id, sc)
	}
	if e.Cfg.Verbose || r.Verdict != "discharged" {
		e.logfAlways("  obligation %s on path %d: %s (%s)", id, s.ID, r.Verdict, r.Solver)
	}
}

func (e *Engine) logfAlways(format string, a ...interface{}) {
	if e.Log != nil {
		e.Log(fmt.Sprintf(format, a...))
	}
}

// scenario converts a model into concrete inputs for the native replay.
func (e *Engine) scenario(s *State, cm *CachedModel, ob string) *Scenario {
	sc := &Scenario{Harness: e.Harness, Ob: ob, Nondet: map[string]interface{}{}, Thorough: ThoroughTier}
	toGo := func(v MVal) interface{} {
		switch {
		case v.I != nil:
			if v.I.IsInt64() {
				return v.I.Int64()
			}
			return v.I.String()
		case v.B != nil:
			return *v.B
		case v.S != nil:
			return map[string]interface{}{"hex": fmt.Sprintf("%x", *v.S)}
		}
		return nil
	}
	for _, en := range s.W.Nondet {
		v, ok := cm.Eval(en.T)
		if !ok {
			continue
		}
		sc.Nondet[en.Tag] = toGo(v)
		sc.Order = append(sc.Order, en.Tag)
		if os.Getenv("GOSYM_DEBUGSC") != "" {
			fmt.Fprintf(os.Stderr, "SC %s kind=%s term=%s val=%v\n", en.Tag, en.Kind, en.T.String(), toGo(v))
		}
	}
	// strings.ToLower is an uninterpreted function with necessary conditions only: where the model's value of
	// lower(x) is not the real lower-casing of its value of x, x is re-spelled as the upper-cased image, whose
	// real lower-casing is the model's lower(x) (same length; the replay decides whether the scenario stands)
	for _, app := range ufApps(s.pcTerms(), "lower") {
		x := app.Args[0]
		if x.Op != "var" {
			continue
		}
		lv, ok1 := cm.Eval(app)
		xv, ok2 := cm.Eval(x)
		if !ok1 || !ok2 || lv.S == nil || xv.S == nil || strings.ToLower(*xv.S) == *lv.S {
			continue
		}
		// make the image really lower-case wherever the scenario spells it, and x its upper-cased form
		low := strings.ToLower(*lv.S)
		cand := strings.ToUpper(low)
		if cand == low {
			continue
		}
		for _, en := range s.W.Nondet {
			if en.T.Op != "var" || en.T.Sort != SStr {
				continue
			}
			if en.T == x {
				sc.Nondet[en.Tag] = map[string]interface{}{"hex": fmt.Sprintf("%x", cand)}
			} else if ev, ok := cm.Eval(en.T); ok && ev.S != nil && *ev.S == *lv.S {
				sc.Nondet[en.Tag] = map[string]interface{}{"hex": fmt.Sprintf("%x", low)}
			}
		}
	}
	evalStr := func(i int) (string, bool) {
		v, ok := cm.Eval(s.W.Evals[i].T)
		if !ok || v.S == nil {
			return "", false
		}
		return *v.S, true
	}
	// abstract address strings -> valid bech32 of the bytes the model decodes them to
	rename := map[string]string{}
	canonical := map[string]bool{}
	type addrInfo struct {
		strT   *Term
		strV   string
		bytesV string
	}
	var addrs []addrInfo
	seenStr := map[string]bool{}
	for i, en := range s.W.Evals {
		if strings.HasPrefix(en.Tag, "addr|") && en.Kind == "app" && i+1 < len(s.W.Evals) {
			str, ok1 := evalStr(i)
			by, ok2 := evalStr(i + 1)
			if os.Getenv("GOSYM_DEBUGSC") != "" {
				fmt.Fprintf(os.Stderr, "SCEVAL %s %q %v | %s %q %v\n", s.W.Evals[i].T.String(), str, ok1, s.W.Evals[i+1].T.String(), by, ok2)
			}
			if ok1 && ok2 && (len(by) == 20 && len(str) == 42 || len(by) == 32 && len(str) == 62) {
				rename[str] = Bech32Encode("jkl", []byte(by))
				// is this spelling the canonical one (the value of AccAddress.String()) in the model?
				if cv, ok := cm.Eval(App("b32enc", s.W.Evals[i+1].T)); ok && cv.S != nil && *cv.S == str {
					canonical[str] = true
				}
				if !seenStr[str] {
					seenStr[str] = true
					addrs = append(addrs, addrInfo{s.W.Evals[i].T, str, by})
				}
			}
		}
	}
	// the model orders address strings by the abstract order `strlt`; real bech32 strings of the model's
	// bytes sort differently, so the byte values are permuted among the addresses until both orders agree
	byteSub := map[string]string{}
	if n := len(addrs); n >= 2 && n <= 8 {
		dupBytes := false
		bs := map[string]bool{}
		for _, a := range addrs {
			if bs[a.bytesV] {
				dupBytes = true
			}
			bs[a.bytesV] = true
		}
		less := make([][]bool, n)
		any := false
		for i := range addrs {
			less[i] = make([]bool, n)
			for j := range addrs {
				if i != j {
					if v, ok := cm.Eval(App("strlt", addrs[i].strT, addrs[j].strT)); ok && v.B != nil && *v.B {
						less[i][j] = true
						any = true
					}
				}
			}
		}
		// the model may also order longer strings that start with these addresses (store keys such as
		// prover/owner/...): such a comparison is decided by the first differing piece
		idxOf := map[int]int{}
		for i, a := range addrs {
			idxOf[a.strT.ID] = i
		}
		// string variables the path condition equates with a concatenation are spelled out first
		eqs := map[int]*Term{}
		var conj func(a *Term)
		conj = func(a *Term) {
			if a.Op == "and" {
				for _, c := range a.Args {
					conj(c)
				}
				return
			}
			if x, t, ok := constEqOf(a); ok && x.Sort == SStr {
				if _, dup := eqs[x.ID]; !dup {
					eqs[x.ID] = t
				}
			}
		}
		for _, a := range s.pcTerms() {
			conj(a)
		}
		smemo := map[int]*Term{}
		for _, app := range ufApps(s.pcTerms(), "strlt") {
			v, ok := cm.Eval(app)
			if !ok || v.B == nil {
				continue
			}
			pa, pb := parts(substTerm(app.Args[0], eqs, smemo)), parts(substTerm(app.Args[1], eqs, smemo))
			k := 0
			for k < len(pa) && k < len(pb) && pa[k] == pb[k] {
				k++
			}
			if k >= len(pa) || k >= len(pb) {
				continue
			}
			i, ok1 := idxOf[pa[k].ID]
			j, ok2 := idxOf[pb[k].ID]
			if !ok1 || !ok2 || i == j {
				continue
			}
			if *v.B {
				less[i][j] = true
			} else {
				less[j][i] = true
			}
			any = true
		}
		if any && !dupBytes {
			// topological order of the known relations
			var ord []int
			used := make([]bool, n)
			for len(ord) < n {
				pick := -1
				for i := 0; i < n && pick < 0; i++ {
					if used[i] {
						continue
					}
					ok := true
					for j := 0; j < n; j++ {
						if !used[j] && j != i && less[j][i] {
							ok = false
						}
					}
					if ok {
						pick = i
					}
				}
				if pick < 0 {
					break
				}
				used[pick] = true
				ord = append(ord, pick)
			}
			if len(ord) == n {
				reals := make([]string, n)
				for i, a := range addrs {
					reals[i] = Bech32Encode("jkl", []byte(a.bytesV))
				}
				idx := make([]int, n)
				for i := range idx {
					idx[i] = i
				}
				sort.Slice(idx, func(x, y int) bool { return reals[idx[x]] < reals[idx[y]] })
				for k, ai := range ord {
					nb := addrs[idx[k]].bytesV
					if nb != addrs[ai].bytesV {
						byteSub[addrs[ai].bytesV] = nb
					}
					rename[addrs[ai].strV] = Bech32Encode("jkl", []byte(nb))
				}
			}
		}
	}
	subBytes := func(b string) string {
		if nb, ok := byteSub[b]; ok {
			return nb
		}
		return b
	}
	if len(byteSub) > 0 {
		for tag, v := range sc.Nondet {
			if mm, ok := v.(map[string]interface{}); ok {
				if hx, ok := mm["hex"].(string); ok {
					bsv, _ := hex.DecodeString(hx)
					if nb, ok := byteSub[string(bsv)]; ok {
						sc.Nondet[tag] = map[string]interface{}{"hex": fmt.Sprintf("%x", nb)}
					}
				}
			}
		}
	}
	var olds []string
	if len(rename) > 0 {
		// two spellings of the same bytes: keep them distinct by upper-casing the later ones
		seen := map[string]string{}
		for o := range rename {
			olds = append(olds, o)
		}
		// canonical spellings first: they keep the lower-case form
		sort.Slice(olds, func(i, j int) bool {
			if canonical[olds[i]] != canonical[olds[j]] {
				return canonical[olds[i]]
			}
			return olds[i] < olds[j]
		})
		for _, o := range olds {
			n := rename[o]
			if prev, dup := seen[n]; dup && prev != o {
				rename[o] = strings.ToUpper(n)
			} else {
				seen[n] = o
			}
		}
		sort.Strings(olds)
		for tag, v := range sc.Nondet {
			if mm, ok := v.(map[string]interface{}); ok {
				if hx, ok := mm["hex"].(string); ok {
					bs, _ := hex.DecodeString(hx)
					str := string(bs)
					for _, o := range olds {
						str = strings.ReplaceAll(str, o, rename[o])
					}
					sc.Nondet[tag] = map[string]interface{}{"hex": fmt.Sprintf("%x", str)}
				}
			}
		}
	}
	// inputs the model tied to a hash value (file-tree owner ids, access ids, ...): recomputed with the
	// real hash functions from the final input values instead of being copied from the abstract model
	var renv *realEnv
	{
		env := &realEnv{vars: map[int]MVal{}, memo: map[int]MVal{}}
		renv = env
		for _, en := range s.W.Nondet {
			if en.T.Op != "var" {
				continue
			}
			switch v := sc.Nondet[en.Tag].(type) {
			case map[string]interface{}:
				if hx, ok := v["hex"].(string); ok {
					bsv, _ := hex.DecodeString(hx)
					env.vars[en.T.ID] = mvS(string(bsv))
				}
			case int64:
				env.vars[en.T.ID] = mvI(big.NewInt(v))
			case bool:
				env.vars[en.T.ID] = mvB(v)
			}
		}
		apps := hashApps(s.pcTerms())
		// several rounds: an input recomputed from a hash may feed another hash
		for round := 0; round < 3 && len(apps) > 0; round++ {
			changed := false
			for _, en := range s.W.Nondet {
				if en.T.Op != "var" || en.T.Sort != SStr {
					continue
				}
				mv, ok := cm.Eval(en.T)
				if !ok || mv.S == nil || len(*mv.S) < 32 {
					continue
				}
				for _, app := range apps {
					av, ok := cm.Eval(app)
					if !ok || av.S == nil || *av.S != *mv.S {
						continue
					}
					// the app must not depend on the variable itself
					dep := false
					for _, x := range Symbols(app) {
						if x == en.T.ID {
							dep = true
						}
					}
					if dep {
						continue
					}
					env.memo = map[int]MVal{}
					if rv, ok := env.eval(app); ok && rv.S != nil {
						old := env.vars[en.T.ID]
						if old.S == nil || *old.S != *rv.S {
							env.vars[en.T.ID] = rv
							sc.Nondet[en.Tag] = map[string]interface{}{"hex": fmt.Sprintf("%x", *rv.S)}
							changed = true
						}
						break
					}
				}
			}
			if !changed {
				break
			}
		}
		// texts decoded as JSON maps: the model only fixes jsonhas/jsonval at the keys looked up; the
		// concrete text is the JSON object holding exactly those entries
		{
			type kv struct{ k, v string }
			byText := map[int][]kv{}
			valid := map[int]bool{}
			seenText := map[int]bool{}
			for _, app := range ufApps(s.pcTerms(), "jsonhas", "jsonvalid") {
				txt := app.Args[0]
				if txt.Op != "var" {
					continue
				}
				seenText[txt.ID] = true
				if app.SV == "jsonvalid" {
					if bv, ok := cm.Eval(app); ok && bv.B != nil {
						valid[txt.ID] = *bv.B
					}
					continue
				}
				hv, ok := cm.Eval(app)
				if !ok || hv.B == nil || !*hv.B {
					continue
				}
				env.memo = map[int]MVal{}
				kvv, ok := env.eval(app.Args[1])
				if !ok || kvv.S == nil {
					if kvv, ok = cm.Eval(app.Args[1]); !ok || kvv.S == nil {
						continue
					}
				}
				val := ""
				if vv, ok := cm.Eval(App("jsonval", txt, app.Args[1])); ok && vv.S != nil {
					val = *vv.S
				}
				byText[txt.ID] = append(byText[txt.ID], kv{*kvv.S, val})
			}
			for _, en := range s.W.Nondet {
				if en.T.Op != "var" || !seenText[en.T.ID] {
					continue
				}
				if v, ok := valid[en.T.ID]; ok && !v {
					continue
				}
				m := map[string]string{}
				for _, e := range byText[en.T.ID] {
					m[e.k] = e.v
				}
				js, _ := json.Marshal(m)
				env.vars[en.T.ID] = mvS(string(js))
				sc.Nondet[en.Tag] = map[string]interface{}{"hex": fmt.Sprintf("%x", js)}
			}
		}
		// store keys of materialised records are recomputed from the (possibly updated) inputs as well
		for _, en := range s.W.Nondet {
			if en.Kind != "storekey" {
				continue
			}
			env.memo = map[int]MVal{}
			if rv, ok := env.eval(en.T); ok && rv.S != nil {
				sc.Nondet[en.Tag] = map[string]interface{}{"hex": fmt.Sprintf("%x", *rv.S)}
			}
		}
	}
	// abstract module addresses -> the real ones (first 20 bytes of sha256(module name))
	modReal := map[string]string{}
	for i, en := range s.W.Evals {
		if strings.HasPrefix(en.Tag, "mod|") && en.Kind == "app" && i+1 < len(s.W.Evals) {
			av, ok1 := evalStr(i)
			nm, ok2 := evalStr(i + 1)
			if ok1 && ok2 {
				d := sha256.Sum256([]byte(nm))
				modReal[av] = string(d[:20])
			}
		}
	}
	// table bases and predicates
	var cur *BalRec
	for i, en := range s.W.Evals {
		v, ok := cm.Eval(en.T)
		if !ok {
			continue
		}
		parts := strings.Split(en.Tag, "|")
		switch {
		case parts[0] == "tbl" && en.Kind == "app" && v.I != nil:
			sc.Bal = append(sc.Bal, BalRec{Table: parts[1], Amount: v.I.String()})
			cur = &sc.Bal[len(sc.Bal)-1]
		case parts[0] == "tbl" && strings.HasSuffix(en.Tag, "arg0") && cur != nil && v.S != nil:
			k1 := subBytes(*v.S)
			if r, ok := modReal[k1]; ok {
				k1 = r
			}
			// hash-derived accounts (gauge accounts, ...): the real digest of the final inputs
			if renv != nil && len(hashApps([]*Term{en.T})) > 0 {
				renv.memo = map[int]MVal{}
				if rv, ok := renv.eval(en.T); ok && rv.S != nil {
					k1 = *rv.S
				}
			}
			cur.K1Hex = fmt.Sprintf("%x", k1)
		case parts[0] == "tbl" && strings.HasSuffix(en.Tag, "arg1") && cur != nil && v.S != nil:
			cur.K2 = *v.S
		case parts[0] == "blocked" && en.Kind == "app" && v.B != nil:
			if *v.B && i+1 < len(s.W.Evals) {
				if r2, ok := evalStr(i + 1); ok {
					sc.Blocked = append(sc.Blocked, fmt.Sprintf("%x", subBytes(r2)))
				}
			}
		}
	}
	return sc
}

func smtToGo(raw string, sort Sort) interface{} {
	raw = strings.TrimSpace(raw)
	switch sort {
	case SBool:
		return raw == "true"
	case SInt:
		neg := false
		if strings.HasPrefix(raw, "(-") {
			neg = true
			raw = strings.TrimSpace(strings.TrimSuffix(strings.TrimPrefix(raw, "(-"), ")"))
		}
		v, ok := new(big.Int).SetString(raw, 10)
		if !ok {
			return raw
		}
		if neg {
			v.Neg(v)
		}
		if v.IsInt64() {
			return v.Int64()
		}
		return v.String()
	case SStr:
		return map[string]interface{}{"hex": fmt.Sprintf("%x", smtUnescape(raw))}
	}
	return raw
}

// smtUnescape decodes an SMT-LIB string literal into bytes (code points > 255 are clamped).
func smtUnescape(lit string) []byte {
	if len(lit) >= 2 && lit[0] == '"' {
		lit = lit[1 : len(lit)-1]
	}
	var out []byte
	for i := 0; i < len(lit); i++ {
		c := lit[i]
		if c == '"' && i+1 < len(lit) && lit[i+1] == '"' {
			out = append(out, '"')
			i++
			continue
		}
		if c == '\\' && i+1 < len(lit) && lit[i+1] == 'u' {
			j := i + 2
			var hexs string
			if j < len(lit) && lit[j] == '{' {
				k := strings.IndexByte(lit[j:], '}')
				if k > 0 {
					hexs = lit[j+1 : j+k]
					i = j + k
				}
			} else if j+4 <= len(lit) {
				hexs = lit[j : j+4]
				i = j + 3
			}
			if hexs != "" {
				var v int
				fmt.Sscanf(hexs, "%x", &v)
				out = append(out, byte(v))
				continue
			}
		}
		out = append(out, c)
	}
	return out
}


// tblGetDecided is World.tblGet with every key comparison first decided against the path condition.
func (e *Engine) tblGetDecided(s *State, tbl string, k1, k2 *Term) *Term {
	base := App("tbl0_"+tbl, k1, k2)
	var nodes []*tblNode
	for n := s.W.Tables[tbl]; n != nil; n = n.next {
		nodes = append(nodes, n)
	}
	r := base
	for i := len(nodes) - 1; i >= 0; i-- {
		n := nodes[i]
		c := And(Eq(k1, n.k1), Eq(k2, n.k2))
		if !c.IsConst() {
			c = e.decide(s, c)
		}
		r = Ite(c, n.v, r)
	}
	return r
}
