package gosym

// Models of cosmos-sdk runtime pieces: Context, KV stores, codec, params, bech32, errors, events, rand.

import (
	"os"
	"fmt"
	"go/types"
	"math/big"
	"strings"
)

const sdkT = "github.com/cosmos/cosmos-sdk/types"

func ctxOf(v Value) *CtxData {
	o, ok := v.(*OpaqueV)
	if !ok || o.Kind != "ctx" {
		throwf("ctx operand %s", showValue(v))
	}
	return o.Data.(*CtxData)
}

type storeView struct {
	store  string
	prefix *Term
}

type iterState struct {
	keys []*Term // full keys (without view prefix stripped) in iteration order
	vals []*BytesV
	strip *Term
	pos  int
	obj  int
}

func init() {
	reg := RegisterIntrinsic
	// bech32 (A-B32)
	DeclareUF("b32ok", []Sort{SStr}, SBool, func(a *Term) []*Term {
		s := a.Args[0]
		d := App("b32dec", s)
		// a valid account string is alphanumeric: none of the separators the modules build keys and names with
		sepFree := TTrue
		for _, c := range []string{"/", ".", ",", " ", "-"} {
			sepFree = And(sepFree, Not(Contains(s, MkStr(c))))
		}
		return []*Term{Implies(a, And(PrefixOf(MkStr("jkl1"), s), sepFree,
			Or(And(Eq(Len(s), MkI(42)), Eq(Len(d), MkI(20))), And(Eq(Len(s), MkI(62)), Eq(Len(d), MkI(32))))))}
	})
	DeclareUF("b32dec", []Sort{SStr}, SStr, nil)
	DeclareUF("b32enc", []Sort{SStr}, SStr, func(a *Term) []*Term {
		return []*Term{Eq(App("b32dec", a), a.Args[0]),
			Implies(Eq(Len(a.Args[0]), MkI(20)), And(App("b32ok", a), Eq(Len(a), MkI(42)))),
			Implies(Eq(Len(a.Args[0]), MkI(32)), And(App("b32ok", a), Eq(Len(a), MkI(62)))),
			PrefixOf(MkStr("jkl1"), a)}
	})
	ufAlphabet["b32enc"] = "jkl1qpzry9x8gf2tvdw0s3jn54khce6mua7l"
	DeclareUF("ismod", []Sort{SStr}, SBool, nil)
	DeclareUF("modaddr", []Sort{SStr}, SStr, func(a *Term) []*Term {
		return []*Term{Eq(App("modname", a), a.Args[0]), App("ismod", a)}
	})
	ufFixedLen["modaddr"] = 20
	DeclareUF("modname", []Sort{SStr}, SStr, nil)
	DeclareUF("blocked", []Sort{SStr}, SBool, nil)

	// ---- Context
	c := "(" + sdkT + ".Context)."
	reg(c+"BlockHeight", func(cc *CallCtx, a []Value) []Outcome { return ret1(ctxOf(a[0]).Height) })
	reg(c+"BlockTime", func(cc *CallCtx, a []Value) []Outcome { return ret1(&TimeV{ctxOf(a[0]).Time}) })
	reg(c+"WithBlockHeight", func(cc *CallCtx, a []Value) []Outcome {
		d := *ctxOf(a[0])
		d.Height = a[1].(*Term)
		return ret1(&OpaqueV{Kind: "ctx", Data: &d})
	})
	reg(c+"WithBlockTime", func(cc *CallCtx, a []Value) []Outcome {
		d := *ctxOf(a[0])
		d.Time = timeOf(a[1])
		return ret1(&OpaqueV{Kind: "ctx", Data: &d})
	})
	reg(c+"WithEventManager", func(cc *CallCtx, a []Value) []Outcome { return ret1(a[0]) })
	reg(c+"WithContext", func(cc *CallCtx, a []Value) []Outcome { return ret1(a[0]) })
	reg(c+"Context", func(cc *CallCtx, a []Value) []Outcome { return ret1(&IfaceV{T: opaqueT, V: a[0]}) })
	reg(c+"Logger", func(cc *CallCtx, a []Value) []Outcome { return ret1(opq("logger", nil)) })
	reg(c+"EventManager", func(cc *CallCtx, a []Value) []Outcome { return ret1(&Ptr{Obj: evmObj(cc.S)}) })
	reg(c+"BlockGasMeter", func(cc *CallCtx, a []Value) []Outcome {
		if ctxOf(a[0]).GasNil {
			return ret1(&IfaceV{})
		}
		return ret1(opq("gasmeter", ctxOf(a[0])))
	})
	reg(c+"GasMeter", func(cc *CallCtx, a []Value) []Outcome { return ret1(opq("gasmeter", ctxOf(a[0]))) })
	reg(c+"KVStore", func(cc *CallCtx, a []Value) []Outcome {
		k := a[1].(*IfaceV)
		o, ok := k.V.(*OpaqueV)
		if !ok || o.Kind != "storekey" {
			throwf("KVStore key %s", showValue(k))
		}
		return ret1(opq("kvstore", &storeView{store: o.Data.(string), prefix: MkStr("")}))
	})
	reg("opaque:gasmeter.GasConsumed", func(cc *CallCtx, a []Value) []Outcome {
		return ret1(a[0].(*IfaceV).V.(*OpaqueV).Data.(*CtxData).Gas)
	})
	reg("opaque:gasmeter.ConsumeGas", func(cc *CallCtx, a []Value) []Outcome { return retNone() })
	reg(sdkT+".UnwrapSDKContext", func(cc *CallCtx, a []Value) []Outcome {
		iv := a[0].(*IfaceV)
		if o, ok := iv.V.(*OpaqueV); ok && o.Kind == "ctx" {
			return ret1(o)
		}
		throwf("UnwrapSDKContext of %s", showValue(iv))
		return nil
	})
	reg(sdkT+".WrapSDKContext", func(cc *CallCtx, a []Value) []Outcome { return ret1(&IfaceV{T: opaqueT, V: a[0]}) })
	// logger
	for _, m := range []string{"Info", "Debug", "Error"} {
		reg("opaque:logger."+m, func(cc *CallCtx, a []Value) []Outcome { return retNone() })
	}
	reg("opaque:logger.With", func(cc *CallCtx, a []Value) []Outcome { return ret1(a[0]) })
	// events: recorded as a count and description only
	reg(sdkT+".NewEvent", func(cc *CallCtx, a []Value) []Outcome {
		return ret1(&StructV{F: []Value{a[0], &SliceV{Nil: true}}})
	})
	reg(sdkT+".NewAttribute", func(cc *CallCtx, a []Value) []Outcome {
		return ret1(&StructV{F: []Value{a[0], a[1]}})
	})
	reg("(*"+sdkT+".EventManager).EmitEvent", func(cc *CallCtx, a []Value) []Outcome {
		cc.S.W.Events++
		if ev, ok := a[1].(*StructV); ok {
			if t, ok := ev.F[0].(*Term); ok {
				cc.S.W.EventLog = append(cc.S.W.EventLog, t)
			}
		}
		return retNone()
	})
	reg("(*"+sdkT+".EventManager).EmitEvents", func(cc *CallCtx, a []Value) []Outcome {
		cc.S.W.Events++
		return retNone()
	})
	reg("(*"+sdkT+".EventManager).EmitTypedEvent", func(cc *CallCtx, a []Value) []Outcome {
		cc.S.W.Events++
		return ret1(&IfaceV{})
	})
	reg(sdkT+".NewEventManager", func(cc *CallCtx, a []Value) []Outcome { return ret1(&Ptr{Obj: evmObj(cc.S)}) })
	RegisterIntrinsicPrefix("github.com/cosmos/cosmos-sdk/telemetry.", func(cc *CallCtx, a []Value) []Outcome {
		if cc.Res != nil {
			if tup, ok := cc.Res.Type().(*types.Tuple); ok && tup.Len() == 0 {
				return retNone()
			}
			return ret1(zeroValue(cc.Res.Type()))
		}
		return retNone()
	})

	// ---- stores
	reg("github.com/cosmos/cosmos-sdk/store/prefix.NewStore", func(cc *CallCtx, a []Value) []Outcome {
		parent := a[0].(*IfaceV).V.(*OpaqueV)
		var pv *storeView
		switch parent.Kind {
		case "kvstore", "prefixstore":
			pv = parent.Data.(*storeView)
		default:
			throwf("prefix.NewStore over %s", parent.Kind)
		}
		return ret1(&OpaqueV{Kind: "prefixstore", Data: &storeView{store: pv.store, prefix: Concat(pv.prefix, a[1].(*BytesV).T)}})
	})
	ps := "(github.com/cosmos/cosmos-sdk/store/prefix.Store)."
	viewOf := func(v Value) *storeView {
		switch x := v.(type) {
		case *OpaqueV:
			return x.Data.(*storeView)
		case *IfaceV:
			return x.V.(*OpaqueV).Data.(*storeView)
		}
		throwf("store receiver %T", v)
		return nil
	}
	get := func(cc *CallCtx, a []Value) []Outcome { return storeGet(cc, viewOf(a[0]), a[1].(*BytesV).T, false) }
	has := func(cc *CallCtx, a []Value) []Outcome { return storeGet(cc, viewOf(a[0]), a[1].(*BytesV).T, true) }
	set := func(cc *CallCtx, a []Value) []Outcome {
		v := viewOf(a[0])
		k := Concat(v.prefix, a[1].(*BytesV).T)
		val := a[2].(*BytesV)
		if val.NilT != TFalse {
			// the real stores panic on nil values
			nz := val.NilT
			return []Outcome{{Cond: nz, Panic: "store.Set: value is nil"}, {Cond: Not(nz), Do: func(st *State) { storeSet(st, v.store, k, val) }}}
		}
		storeSet(cc.S, v.store, k, val)
		return retNone()
	}
	del := func(cc *CallCtx, a []Value) []Outcome {
		v := viewOf(a[0])
		k := Concat(v.prefix, a[1].(*BytesV).T)
		storeSet(cc.S, v.store, k, nil)
		return retNone()
	}
	iter := func(rev bool) Intrinsic {
		return func(cc *CallCtx, a []Value) []Outcome {
			v := viewOf(a[0])
			s, e := a[1].(*BytesV), a[2].(*BytesV)
			if s.NilT != TTrue || e.NilT != TTrue {
				throwf("store iterator with bounds")
			}
			return storeIter(cc, v, v.prefix, rev)
		}
	}
	for _, p := range []string{ps, "opaque:kvstore.", "opaque:prefixstore."} {
		reg(p+"Get", get)
		reg(p+"Has", has)
		reg(p+"Set", set)
		reg(p+"Delete", del)
		reg(p+"Iterator", iter(false))
		reg(p+"ReverseIterator", iter(true))
	}
	reg(sdkT+".KVStorePrefixIterator", func(cc *CallCtx, a []Value) []Outcome {
		v := viewOf(a[0])
		return storeIter(cc, v, Concat(v.prefix, a[1].(*BytesV).T), false)
	})
	reg(sdkT+".KVStoreReversePrefixIterator", func(cc *CallCtx, a []Value) []Outcome {
		v := viewOf(a[0])
		return storeIter(cc, v, Concat(v.prefix, a[1].(*BytesV).T), true)
	})
	itOf := func(cc *CallCtx, v Value) (*iterState, int) {
		o := v.(*IfaceV).V.(*OpaqueV)
		id := o.Data.(int)
		return cc.S.load(&Ptr{Obj: id}).(*OpaqueV).Data.(*iterState), id
	}
	reg("opaque:iterator.Valid", func(cc *CallCtx, a []Value) []Outcome {
		it, _ := itOf(cc, a[0])
		return ret1(MkBool(it.pos < len(it.keys)))
	})
	reg("opaque:iterator.Next", func(cc *CallCtx, a []Value) []Outcome {
		it, id := itOf(cc, a[0])
		n := *it
		n.pos++
		cc.S.hset(id, &OpaqueV{Kind: "iterstate", Data: &n})
		return retNone()
	})
	reg("opaque:iterator.Key", func(cc *CallCtx, a []Value) []Outcome {
		it, _ := itOf(cc, a[0])
		if it.pos >= len(it.keys) {
			panic(goPanic{"iterator.Key on invalid iterator"})
		}
		k := it.keys[it.pos]
		return ret1(&BytesV{T: stripPrefixT(k, it.strip), NilT: TFalse})
	})
	reg("opaque:iterator.Value", func(cc *CallCtx, a []Value) []Outcome {
		it, _ := itOf(cc, a[0])
		if it.pos >= len(it.keys) {
			panic(goPanic{"iterator.Value on invalid iterator"})
		}
		return ret1(it.vals[it.pos])
	})
	reg("opaque:iterator.Close", func(cc *CallCtx, a []Value) []Outcome { return ret1(&IfaceV{}) })
	reg("opaque:iterator.Error", func(cc *CallCtx, a []Value) []Outcome { return ret1(&IfaceV{}) })

	// ---- codec (A-PROTO)
	marshal := func(must bool) Intrinsic {
		return func(cc *CallCtx, a []Value) []Outcome {
			iv := a[1].(*IfaceV)
			p, ok := iv.V.(*Ptr)
			if !ok || iv.T == nil {
				throwf("codec.Marshal of %s", showValue(iv))
			}
			et := iv.T.Underlying().(*types.Pointer).Elem()
			fz := cc.E.freeze(cc.S, cc.S.load(p), et)
			// gogoproto returns nil for a message whose fields are all default
			b := &BytesV{T: FreshVar("pb", SStr), NilT: allDefault(fz), Blob: &Blob{Typ: et, Val: fz}}
			if must {
				return ret1(b)
			}
			return ret1(tuple(b, &IfaceV{}))
		}
	}
	unmarshal := func(must bool) Intrinsic {
		return func(cc *CallCtx, a []Value) []Outcome {
			b := a[1].(*BytesV)
			iv := a[2].(*IfaceV)
			p, ok := iv.V.(*Ptr)
			if !ok || iv.T == nil {
				throwf("codec.Unmarshal into %s", showValue(iv))
			}
			et := iv.T.Underlying().(*types.Pointer).Elem()
			okRet := Value(&IfaceV{})
			if must {
				okRet = nil
			}
			if b.Blob == nil {
				throwf("codec.Unmarshal of raw bytes into %s", et)
			}
			if b.Blob.Typ != nil {
				if !types.Identical(b.Blob.Typ, et) {
					// decoding a record of another type: protobuf matches fields by number and wire type
					cc.S.W.Ghost["TypeConfusion"] = TTrue
					cc.S.store(p, cc.E.thaw(cc.S, crossDecode(b.Blob.Typ, b.Blob.Val, et)))
					if must {
						return retNone()
					}
					return ret1(okRet)
				}
				cc.S.store(p, cc.E.thaw(cc.S, b.Blob.Val))
				if must {
					return retNone()
				}
				return ret1(okRet)
			}
			// lazy open-world content
			if lv, ok := cc.S.W.LazyVals[b.Blob.Lazy]; ok {
				if !types.Identical(lv.typ, et) {
					throwf("lazy blob decoded at two types %s / %s", lv.typ, et)
				}
				cc.S.store(p, cc.E.thaw(cc.S, lv.val))
				if must {
					return retNone()
				}
				return ret1(okRet)
			}
			shapes := cc.E.freshOfType(cc.S, et, fmt.Sprintf("rec%d.%s", b.Blob.Lazy, shortType(et)), 0)
			var outs []Outcome
			lazy := b.Blob.Lazy
			for _, sh := range shapes {
				sh := sh
				bindKeyLayout(cc.S, lazy, et, sh.val)
				sh.cond = And(sh.cond, wfCond(cc.S, lazy, et, sh.val))
				outs = append(outs, Outcome{Cond: sh.cond, Do: func(st *State) {
					st.W.LazyVals[lazy] = lazyVal{typ: et, val: sh.val}
					st.store(p, cc.E.thaw(st, sh.val))
				}, Ret: okRet})
			}
			if len(outs) == 1 {
				return outs
			}
			return forkAllMarker(outs)
		}
	}
	for _, cd := range []string{"opaque:codec."} {
		reg(cd+"MustMarshal", marshal(true))
		reg(cd+"Marshal", marshal(false))
		reg(cd+"MustUnmarshal", unmarshal(true))
		reg(cd+"Unmarshal", unmarshal(false))
	}

	// ---- params
	sp := "(github.com/cosmos/cosmos-sdk/x/params/types.Subspace)."
	reg(sp+"HasKeyTable", func(cc *CallCtx, a []Value) []Outcome { return ret1(TTrue) })
	reg(sp+"WithKeyTable", func(cc *CallCtx, a []Value) []Outcome { return ret1(a[0]) })
	getPS := func(ifExists bool) Intrinsic {
		return func(cc *CallCtx, a []Value) []Outcome {
			name := a[0].(*OpaqueV).Data.(string)
			p := a[2].(*IfaceV).V.(*Ptr)
			v, ok := cc.S.W.Params[name]
			if !ok {
				if ifExists {
					return retNone()
				}
				throwf("params of %s not set by the harness", name)
			}
			cc.S.store(p, cc.E.thaw(cc.S, v))
			return retNone()
		}
	}
	reg(sp+"GetParamSet", getPS(false))
	reg(sp+"GetParamSetIfExists", getPS(true))
	reg(sp+"SetParamSet", func(cc *CallCtx, a []Value) []Outcome {
		name := a[0].(*OpaqueV).Data.(string)
		iv := a[2].(*IfaceV)
		p := iv.V.(*Ptr)
		et := iv.T.Underlying().(*types.Pointer).Elem()
		cc.S.W.Params[name] = cc.E.freeze(cc.S, cc.S.load(p), et)
		return retNone()
	})

	// ---- bech32
	reg(sdkT+".AccAddressFromBech32", func(cc *CallCtx, a []Value) []Outcome {
		s := a[0].(*Term)
		ok := b32okT(s)
		noteAddr(cc.S.W, s, b32decT(s))
		return []Outcome{
			{Cond: ok, Ret: tuple(&BytesV{T: b32decT(s), NilT: TFalse}, &IfaceV{})},
			{Cond: Not(ok), Ret: tuple(&BytesV{T: MkStr(""), NilT: TTrue}, newErr("bech32", nil))},
		}
	})
	reg(sdkT+".MustAccAddressFromBech32", func(cc *CallCtx, a []Value) []Outcome {
		s := a[0].(*Term)
		ok := b32okT(s)
		return []Outcome{
			{Cond: ok, Ret: &BytesV{T: b32decT(s), NilT: TFalse}},
			{Cond: Not(ok), Panic: "MustAccAddressFromBech32"},
		}
	})
	reg("("+sdkT+".AccAddress).String", func(cc *CallCtx, a []Value) []Outcome {
		b := a[0].(*BytesV)
		noteAddr(cc.S.W, b32encT(b.T), b.T)
		return ret1(Ite(Eq(Len(b.T), MkI(0)), MkStr(""), b32encT(b.T)))
	})
	reg("("+sdkT+".AccAddress).Empty", func(cc *CallCtx, a []Value) []Outcome {
		return ret1(Eq(Len(a[0].(*BytesV).T), MkI(0)))
	})
	reg("("+sdkT+".AccAddress).Bytes", func(cc *CallCtx, a []Value) []Outcome { return ret1(a[0]) })
	reg(sdkT+".VerifyAddressFormat", func(cc *CallCtx, a []Value) []Outcome {
		b := a[0].(*BytesV)
		ok := And(Lt(MkI(0), Len(b.T)), Le(Len(b.T), MkI(255)))
		return []Outcome{{Cond: ok, Ret: &IfaceV{}}, {Cond: Not(ok), Ret: newErr("addrfmt", nil)}}
	})
	reg("github.com/cosmos/cosmos-sdk/types/bech32.DecodeAndConvert", func(cc *CallCtx, a []Value) []Outcome {
		s := a[0].(*Term)
		ok := b32okT(s)
		return []Outcome{
			{Cond: ok, Ret: tuple(MkStr("jkl"), &BytesV{T: b32decT(s), NilT: TFalse}, &IfaceV{})},
			{Cond: Not(ok), Ret: tuple(MkStr(""), &BytesV{T: MkStr(""), NilT: TTrue}, newErr("bech32", nil))},
		}
	})
	reg(sdkT+".AccAddressFromHex", func(cc *CallCtx, a []Value) []Outcome {
		s := a[0].(*Term)
		if s.Op == "uf" && s.SV == "hex" {
			return ret1(tuple(&BytesV{T: s.Args[0], NilT: TFalse}, &IfaceV{}))
		}
		if s.IsConst() {
			f := intrinsics["encoding/hex.DecodeString"]
			return f(cc, a)
		}
		u := App("unhex", s)
		ok := And(Eq(hexT(u), s), Lt(MkI(0), Len(s)))
		return []Outcome{
			{Cond: ok, Ret: tuple(&BytesV{T: u, NilT: TFalse}, &IfaceV{})},
			{Cond: Not(ok), Ret: tuple(&BytesV{T: MkStr(""), NilT: TTrue}, newErr("hexaddr", nil))},
		}
	})

	// ---- sdkerrors
	se := "github.com/cosmos/cosmos-sdk/types/errors."
	reg(se+"Register", func(cc *CallCtx, a []Value) []Outcome {
		desc := "registered"
		if t, ok := a[2].(*Term); ok && t.IsConst() {
			desc = t.SV
		}
		e := newErr(desc, nil).(*IfaceV)
		// *errors.Error pointer type: model as pointer to an object holding the opaque error
		return ret1(e.V)
	})
	wrap := func(cc *CallCtx, a []Value) []Outcome {
		var parent *ErrData
		switch x := a[0].(type) {
		case *IfaceV:
			if x.T == nil {
				return ret1(&IfaceV{})
			}
			if o, ok := x.V.(*OpaqueV); ok && o.Kind == "error" {
				parent = o.Data.(*ErrData)
			}
		case *OpaqueV:
			if x.Kind == "error" {
				parent = x.Data.(*ErrData)
			}
		}
		desc := "wrapped"
		if parent != nil {
			desc = parent.Desc
		}
		return ret1(newErr(desc, parent))
	}
	reg(se+"Wrap", wrap)
	reg(se+"Wrapf", wrap)
	reg("(*"+se[:len(se)-1]+".Error).Error", func(cc *CallCtx, a []Value) []Outcome { return ret1(FreshVar("errtext", SStr)) })
	reg("(*"+se[:len(se)-1]+".Error).Wrap", func(cc *CallCtx, a []Value) []Outcome { return wrap(cc, a) })
	reg("(*"+se[:len(se)-1]+".Error).Wrapf", func(cc *CallCtx, a []Value) []Outcome { return wrap(cc, a) })

	// ---- tendermint rand (A-RAND)
	tr := "github.com/tendermint/tendermint/libs/rand."
	reg(tr+"NewRand", func(cc *CallCtx, a []Value) []Outcome {
		id := cc.S.alloc(&OpaqueV{Kind: "rand", Data: &randState{seed: FreshVar("env.randseed", SInt)}})
		return ret1(&Ptr{Obj: id})
	})
	reg("(*"+tr[:len(tr)-1]+".Rand).Seed", func(cc *CallCtx, a []Value) []Outcome {
		p := a[0].(*Ptr)
		cc.S.store(p, &OpaqueV{Kind: "rand", Data: &randState{seed: a[1].(*Term)}})
		return retNone()
	})
	reg("(*"+tr[:len(tr)-1]+".Rand).Int63n", func(cc *CallCtx, a []Value) []Outcome {
		p := a[0].(*Ptr)
		rs := cc.S.load(p).(*OpaqueV).Data.(*randState)
		n := a[1].(*Term)
		pos := Lt(MkI(0), n)
		if cc.S.W.RandChoice && n.isI() && n.IV.IsInt64() && n.IV.Int64() <= 8 {
			var outs []Outcome
			for i := int64(0); i < n.IV.Int64(); i++ {
				outs = append(outs, Outcome{Cond: TTrue, Ret: MkI(i), Do: func(st *State) {
					st.store(p, &OpaqueV{Kind: "rand", Data: &randState{seed: rs.seed, calls: rs.calls + 1}})
				}})
			}
			return forkAllMarker(outs)
		}
		r := App("rnd", rs.seed, MkI(int64(rs.calls)), n)
		do := func(st *State) {
			st.store(p, &OpaqueV{Kind: "rand", Data: &randState{seed: rs.seed, calls: rs.calls + 1}})
		}
		return []Outcome{{Cond: pos, Ret: r, Do: do}, {Cond: Not(pos), Panic: "invalid argument to Int63n"}}
	})
	reg("(*"+tr[:len(tr)-1]+".Rand).Intn", intrinsics["(*"+tr[:len(tr)-1]+".Rand).Int63n"])
}

type randState struct {
	seed  *Term
	calls int
}

// forkAllMarker marks outcomes that must all be taken without feasibility checks (conditions true or cheap).
func forkAllMarker(outs []Outcome) []Outcome { return outs }

func evmObj(s *State) int {
	if v, ok := s.W.Ghost["evm"]; ok {
		return v.(*Ptr).Obj
	}
	id := s.alloc(&OpaqueV{Kind: "eventmanager"})
	s.W.Ghost["evm"] = &Ptr{Obj: id}
	return id
}

func shortType(t types.Type) string {
	s := t.String()
	if i := strings.LastIndex(s, "."); i >= 0 {
		return s[i+1:]
	}
	return s
}

func b32okT(s *Term) *Term {
	if s.Op == "uf" && s.SV == "b32enc" {
		return Or(Eq(Len(s.Args[0]), MkI(20)), Eq(Len(s.Args[0]), MkI(32)))
	}
	if s.IsConst() {
		return MkBool(concreteBech32OK(s.SV))
	}
	return App("b32ok", s)
}

func b32decT(s *Term) *Term {
	if s.Op == "uf" && s.SV == "b32enc" {
		return s.Args[0]
	}
	return App("b32dec", s)
}

func b32encT(b *Term) *Term { return App("b32enc", b) }

// noteAddr records an (address string, address bytes) pair so that scenarios can be made concrete.
func noteAddr(w *World, str, bytes *Term) { w.noteEval("addr", str, bytes) }

func concreteBech32OK(s string) bool {
	// constants in the code under test that are parsed as addresses are real jkl addresses
	return strings.HasPrefix(s, "jkl1") && (len(s) == 42 || len(s) == 62)
}

// ---------- KV store operations

func storeSet(st *State, store string, k *Term, v *BytesV) {
	m := st.W.store(store)
	if v == nil {
		m.set(k, nil)
	} else {
		m.set(k, v)
	}
	st.W.Writes++
	st.W.WriteLog = append(st.W.WriteLog, writeRec{store, k, v})
}

func storeGet(cc *CallCtx, v *storeView, key *Term, hasOnly bool) []Outcome {
	k := Concat(v.prefix, key)
	m := cc.S.W.store(v.store)
	var outs []Outcome
	for _, g := range m.get(k) {
		g := g
		switch {
		case g.mat:
			present := FreshVar("present."+v.store, SBool)
			cc.S.W.LazyNext++
			lazy := cc.S.W.LazyNext
			rawT := FreshVar("raw."+v.store, SStr)
			val := &BytesV{T: rawT, NilT: TFalse, Blob: &Blob{Lazy: lazy}}
			store := v.store
			rec := func(st *State) {
				mm := st.W.store(store)
				mm.Reads = &baseRead{key: k, present: present, val: val, next: mm.Reads}
				st.W.Nondet = append(st.W.Nondet, NondetEntry{Tag: fmt.Sprintf("store.%s.key%d", store, lazy), T: k, Kind: "storekey"},
					NondetEntry{Tag: fmt.Sprintf("store.%s.present%d", store, lazy), T: present, Kind: "bool"},
					NondetEntry{Tag: fmt.Sprintf("store.%s.raw%d", store, lazy), T: rawT, Kind: "bytes"})
			}
			if hasOnly {
				outs = append(outs, Outcome{Cond: And(g.cond, present), Do: rec, Ret: TTrue})
				outs = append(outs, Outcome{Cond: And(g.cond, Not(present)), Do: rec, Ret: TFalse})
			} else {
				outs = append(outs, Outcome{Cond: And(g.cond, present), Do: rec, Ret: val})
				outs = append(outs, Outcome{Cond: And(g.cond, Not(present)), Do: rec, Ret: &BytesV{T: MkStr(""), NilT: TTrue}})
			}
		case g.val == nil:
			if hasOnly {
				outs = append(outs, Outcome{Cond: g.cond, Ret: TFalse})
			} else {
				outs = append(outs, Outcome{Cond: g.cond, Ret: &BytesV{T: MkStr(""), NilT: TTrue}})
			}
		default:
			if hasOnly {
				outs = append(outs, Outcome{Cond: g.cond, Ret: TTrue})
			} else {
				outs = append(outs, Outcome{Cond: g.cond, Ret: g.val})
			}
		}
	}
	return outs
}

// storeIter: ordered iteration over a closed store's live entries with the prefix (A-ITER: snapshot).
func storeIter(cc *CallCtx, v *storeView, pfx *Term, rev bool) []Outcome {
	m := cc.S.W.store(v.store)
	if m.Open {
		throwf("iteration over open store %s", v.store)
	}
	// collect live entries: newest write per key wins; keys may alias symbolically -> require syntactic distinctness decided
	type ent struct {
		k  *Term
		v  *BytesV
		in *Term
	}
	var ents []ent
	var seen []*Term
	for n := m.Log; n != nil; n = n.next {
		shadow := false
		for _, sk := range seen {
			eq := Eq(sk, n.key)
			if eq == TTrue {
				shadow = true
				break
			}
			if eq != TFalse {
				// ask the solver; if both are possible, split the path on key equality and redo the instruction
				if cc.E.feasible(cc.S, eq) != Unsat {
					if cc.E.feasible(cc.S, Not(eq)) != Unsat {
						redo := func(st *State) { st.top().PC-- }
						return []Outcome{{Cond: eq, Do: redo}, {Cond: Not(eq), Do: redo}}
					}
					shadow = true
					break
				}
			}
		}
		seen = append(seen, n.key)
		if shadow || n.val == nil {
			continue
		}
		hp := PrefixOf(pfx, n.key)
		if hp == TFalse {
			continue
		}
		if hp != TTrue {
			hp = cc.E.decide(cc.S, hp)
			if hp == TFalse {
				continue
			}
		}
		ents = append(ents, ent{n.key, n.val.(*BytesV), hp})
	}
	if len(ents) > 4 {
		throwf("iteration over %d entries exceeds bound", len(ents))
	}
	// undetermined prefix membership: one case per subset; order: fork on the abstract total order
	var undet []int
	for i, en := range ents {
		if en.in != TTrue {
			undet = append(undet, i)
		}
	}
	var outs []Outcome
	for mask := 0; mask < 1<<uint(len(undet)); mask++ {
		cond := TTrue
		var sel []ent
		excluded := map[int]bool{}
		for bi, idx := range undet {
			if mask&(1<<uint(bi)) != 0 {
				cond = And(cond, ents[idx].in)
			} else {
				cond = And(cond, Not(ents[idx].in))
				excluded[idx] = true
			}
		}
		for i, en := range ents {
			if !excluded[i] {
				sel = append(sel, en)
			}
		}
		n := len(sel)
		for _, p := range permutations(n) {
			c2 := cond
			for i := 0; i+1 < n; i++ {
				c2 = And(c2, StrLt(sel[p[i]].k, sel[p[i+1]].k))
			}
			if c2 == TFalse {
				continue
			}
			pp := p
			selc := sel
			res := cc.Res
			outs = append(outs, Outcome{Cond: c2, Do: func(st *State) {
				it := &iterState{strip: v.prefix}
				for _, i := range pp {
					it.keys = append(it.keys, selc[i].k)
					it.vals = append(it.vals, selc[i].v)
				}
				if rev {
					for i, j := 0, len(it.keys)-1; i < j; i, j = i+1, j-1 {
						it.keys[i], it.keys[j] = it.keys[j], it.keys[i]
						it.vals[i], it.vals[j] = it.vals[j], it.vals[i]
					}
				}
				id := st.alloc(&OpaqueV{Kind: "iterstate", Data: it})
				if res != nil {
					f := st.top()
					f.Locals[f.Info.idx[res]] = opq("iterator", id)
				}
			}})
		}
	}
	return outs
}

func permutations(n int) [][]int {
	var res [][]int
	var rec func(cur []int, used []bool)
	rec = func(cur []int, used []bool) {
		if len(cur) == n {
			res = append(res, append([]int(nil), cur...))
			return
		}
		for i := 0; i < n; i++ {
			if !used[i] {
				used[i] = true
				rec(append(cur, i), used)
				used[i] = false
			}
		}
	}
	rec(nil, make([]bool, n))
	return res
}


// wfCond: declared well-formedness of an open-world record (zzverif.WFKey / WFAddr): the record sits at
// the key built from its own fields; address fields hold valid account strings.
func wfCond(s *State, lazy int, et types.Type, val Value) *Term {
	st, ok := et.Underlying().(*types.Struct)
	sv, ok2 := val.(*StructV)
	if !ok || !ok2 {
		return TTrue
	}
	tn := shortType(et)
	field := func(name string) Value {
		for i := 0; i < st.NumFields(); i++ {
			if st.Field(i).Name() == name {
				return sv.F[i]
			}
		}
		throwf("WF: no field %s in %s", name, tn)
		return nil
	}
	cond := TTrue
	for store, m := range s.W.Stores {
		spec, ok := s.W.Ghost["wfkey:"+store+":"+tn]
		if !ok {
			continue
		}
		for r := m.Reads; r != nil; r = r.next {
			if r.val == nil || r.val.Blob == nil || r.val.Blob.Lazy != lazy {
				continue
			}
			// several key layouts may hold the type (primary / secondary index): pick by literal prefix
			var chosen []string
			for _, cand := range spec.([][]string) {
				if len(cand) > 0 && PrefixOf(MkStr(cand[0]), r.key) == TTrue {
					chosen = cand
					break
				}
			}
			if chosen == nil {
				continue
			}
			var ps []*Term
			for _, p := range chosen {
				switch {
				case strings.HasPrefix(p, "$"):
					ps = append(ps, strOf(field(p[1:])))
				case strings.HasPrefix(p, "hex:$"):
					ps = append(ps, hexT(strOf(field(p[5:]))))
				case strings.HasPrefix(p, "dec:$"):
					ps = append(ps, decT(field(p[5:]).(*Term)))
				default:
					ps = append(ps, MkStr(p))
				}
			}
			cond = And(cond, Eq(r.key, Concat(ps...)))
		}
	}
	if spec, ok := s.W.Ghost["wfaddr:"+tn]; ok {
		for _, f := range spec.([]string) {
			ft := strOf(field(f))
			noteAddr(s.W, ft, b32decT(ft))
			// a valid account string of an ordinary (non-module) account
			cond = And(cond, b32okT(ft), Not(App("ismod", b32decT(ft))))
		}
	}
	if spec, ok := s.W.Ghost["wf:"+tn]; ok {
		for _, cl := range spec.([]string) {
			ps := strings.SplitN(cl, ":", 3)
			switch ps[0] {
			case "nocontain":
				cond = And(cond, Not(Contains(strOf(field(ps[1])), MkStr(ps[2]))))
			case "oneof":
				var alts []*Term
				for _, a := range strings.Split(ps[2], ",") {
					alts = append(alts, Eq(strOf(field(ps[1])), MkStr(a)))
				}
				cond = And(cond, Or(alts...))
			case "lower":
				cond = And(cond, isLowerT(strOf(field(ps[1]))))
			case "nonneg":
				cond = And(cond, Le(MkI(0), field(ps[1]).(*Term)))
			case "le":
				n, _ := new(big.Int).SetString(ps[2], 10)
				cond = And(cond, Le(field(ps[1]).(*Term), MkInt(n)))
			case "pos":
				cond = And(cond, Lt(MkI(0), field(ps[1]).(*Term)))
			case "coin":
				ft := strOf(field(ps[1]))
				cond = And(cond, App("coinok", ft))
			default:
				throwf("WF clause %q", cl)
			}
		}
	}
	// the real stores never hold an empty value: a present record has some non-default field
	cond = And(cond, Not(allDefault(val)))
	return cond
}


// allDefault: every scalar in the (frozen or live) record equals its zero value, i.e. the protobuf
// encoding is empty.
func allDefault(v Value) *Term {
	switch x := v.(type) {
	case *Term:
		switch x.Sort {
		case SInt:
			return Eq(x, MkI(0))
		case SBool:
			return Not(x)
		}
		return Eq(Len(x), MkI(0))
	case *StructV:
		r := TTrue
		for _, f := range x.F {
			r = And(r, allDefault(f))
		}
		return r
	case *BytesV:
		return Eq(Len(x.T), MkI(0))
	case *FrozenSlice:
		return MkBool(len(x.E) == 0)
	case *FrozenPtr:
		return MkBool(x.Nil)
	case *FrozenMap:
		return MkBool(len(x.E) == 0)
	case *BigV:
		return TFalse // sdk.Int fields are always encoded
	case *TimeV:
		return TFalse
	case *IfaceV:
		return MkBool(x.T == nil)
	}
	return TFalse
}


// crossDecode models gogoproto decoding the encoding of a src-typed record into a dst-typed one:
// a destination field receives the source field with the same field number when the wire types agree,
// everything else stays at its zero value (unknown fields are skipped).
func crossDecode(srcT types.Type, src Value, dstT types.Type) Value {
	ss, ok1 := srcT.Underlying().(*types.Struct)
	ds, ok2 := dstT.Underlying().(*types.Struct)
	sv, ok3 := src.(*StructV)
	if !ok1 || !ok2 || !ok3 {
		throwf("type confusion between non-struct records %s / %s", srcT, dstT)
	}
	tagOf := func(st *types.Struct, i int) (wire string, num string, ok bool) {
		tag := st.Tag(i)
		j := strings.Index(tag, `protobuf:"`)
		if j < 0 {
			return "", "", false
		}
		rest := tag[j+10:]
		k := strings.Index(rest, `"`)
		if k < 0 {
			return "", "", false
		}
		parts := strings.Split(rest[:k], ",")
		if len(parts) < 2 {
			return "", "", false
		}
		return parts[0], parts[1], true
	}
	out := make([]Value, ds.NumFields())
	for i := 0; i < ds.NumFields(); i++ {
		out[i] = zeroFrozen(ds.Field(i).Type())
		dw, dn, ok := tagOf(ds, i)
		if !ok {
			continue
		}
		for j := 0; j < ss.NumFields(); j++ {
			sw, sn, ok := tagOf(ss, j)
			if !ok || sn != dn || sw != dw {
				continue
			}
			if types.Identical(ss.Field(j).Type(), ds.Field(i).Type()) {
				out[i] = sv.F[j]
			} else {
				throwf("type confusion: field %s of %s into %s with different Go types", sn, srcT, dstT)
			}
		}
	}
	return &StructV{out}
}


// stripPrefixT removes the (known) prefix p from k, structurally when possible.
func stripPrefixT(k, p *Term) *Term {
	if p.IsConst() {
		if k.IsConst() && strings.HasPrefix(k.SV, p.SV) {
			return MkStr(k.SV[len(p.SV):])
		}
		if k.Op == "str.++" && k.Args[0].IsConst() && strings.HasPrefix(k.Args[0].SV, p.SV) {
			rest := append([]*Term{MkStr(k.Args[0].SV[len(p.SV):])}, k.Args[1:]...)
			return Concat(rest...)
		}
	}
	n := Len(p)
	return Substr(k, n, Sub(Len(k), n))
}

// bindKeyLayout: an open-world record is read at a key whose term spells out the declared key layout of
// its type piece by piece (constants, one term per variable part). When every string part of the layout
// is declared to hold an account address (WFAddr) and the other parts are hex / decimal renderings, the
// key parses in exactly one way ("/"-free components, A-KEYPARSE), so the record's key fields are those
// terms: they are bound directly instead of being fresh variables tied to the key by a string equation.
func bindKeyLayout(s *State, lazy int, et types.Type, val Value) {
	st, ok := et.Underlying().(*types.Struct)
	sv, ok2 := val.(*StructV)
	if !ok || !ok2 || os.Getenv("GOSYM_NOBIND") != "" {
		return
	}
	tn := shortType(et)
	addrFields := map[string]bool{}
	if spec, ok := s.W.Ghost["wfaddr:"+tn]; ok {
		for _, f := range spec.([]string) {
			addrFields[f] = true
		}
	}
	fieldIdx := func(name string) int {
		for i := 0; i < st.NumFields(); i++ {
			if st.Field(i).Name() == name {
				return i
			}
		}
		return -1
	}
	for store, m := range s.W.Stores {
		spec, ok := s.W.Ghost["wfkey:"+store+":"+tn]
		if !ok {
			continue
		}
		for r := m.Reads; r != nil; r = r.next {
			if r.val == nil || r.val.Blob == nil || r.val.Blob.Lazy != lazy {
				continue
			}
			var chosen []string
			for _, cand := range spec.([][]string) {
				if len(cand) > 0 && PrefixOf(MkStr(cand[0]), r.key) == TTrue {
					chosen = cand
					break
				}
			}
			if chosen == nil {
				continue
			}
			for _, p := range chosen {
				if strings.HasPrefix(p, "$") && !addrFields[p[1:]] {
					return
				}
			}
			pieces := parts(r.key)
			pi, off := 0, 0
			binds := map[int]Value{}
			okMatch := true
			for _, p := range chosen {
				if pi >= len(pieces) {
					okMatch = false
					break
				}
				pc := pieces[pi]
				switch {
				case strings.HasPrefix(p, "$"), strings.HasPrefix(p, "hex:$"), strings.HasPrefix(p, "dec:$"):
					if pc.IsConst() || off != 0 {
						okMatch = false
						break
					}
					switch {
					case strings.HasPrefix(p, "$"):
						// the record's own fields are "/"-free (addresses), so the key has exactly the layout's
						// separators and this piece is the whole field whatever it may contain otherwise
						binds[fieldIdx(p[1:])] = pc
					case strings.HasPrefix(p, "hex:$"):
						if pc.Op != "uf" || pc.SV != "hex" {
							okMatch = false
							break
						}
						binds[fieldIdx(p[5:])] = &BytesV{T: pc.Args[0], NilT: Eq(Len(pc.Args[0]), MkI(0))}
					default:
						var x *Term
						if pc.Op == "str.from_int" {
							x = pc.Args[0]
						} else if pc.Op == "ite" && pc.Args[2].Op == "str.from_int" {
							x = pc.Args[2].Args[0]
						}
						if x == nil || decT(x) != pc {
							okMatch = false
							break
						}
						binds[fieldIdx(p[5:])] = x
					}
					pi++
				default:
					if !pc.IsConst() || !strings.HasPrefix(pc.SV[off:], p) {
						okMatch = false
						break
					}
					off += len(p)
					if off == len(pc.SV) {
						pi, off = pi+1, 0
					}
				}
				if !okMatch {
					break
				}
			}
			if !okMatch || pi != len(pieces) || off != 0 {
				return
			}
			for i, v := range binds {
				if i < 0 {
					return
				}
				// int fields keep their declared width: the bound term must fit
				if t, ok := v.(*Term); ok && t.Sort == SInt {
					if old, ok := sv.F[i].(*Term); ok {
						olo, ohi := Bounds(old)
						nlo, nhi := Bounds(t)
						if olo == nil || ohi == nil || nlo == nil || nhi == nil || nlo.Cmp(olo) < 0 || nhi.Cmp(ohi) > 0 {
							return
						}
					}
				}
			}
			for i, v := range binds {
				// the scenario entry of the replaced fresh variable now reports the bound term's value
				var oldT, newT *Term
				switch o := sv.F[i].(type) {
				case *Term:
					oldT = o
				case *BytesV:
					oldT = o.T
				}
				switch n := v.(type) {
				case *Term:
					newT = n
				case *BytesV:
					newT = n.T
				}
				if oldT != nil && newT != nil {
					for j := range s.W.Nondet {
						if s.W.Nondet[j].T == oldT {
							s.W.Nondet[j].T = newT
						}
					}
				}
				sv.F[i] = v
			}
			return
		}
	}
}
