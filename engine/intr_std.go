package gosym

// Models of the Go standard library pieces that the code under test reaches.

import (
	"crypto/sha256"
	"encoding/hex"
	"fmt"
	"math"
	"math/big"
	"regexp"
	"strconv"
	"strings"

	"golang.org/x/crypto/sha3"
)

func init() {
	DeclareUF("strlt", []Sort{SStr, SStr}, SBool, nil)
	DeclareUF("bitlen", []Sort{SInt}, SInt, nil)
	// dec: decimal rendering of an integer
	DeclareUF("undec", []Sort{SStr}, SInt, nil)
	DeclareUF("isdec", []Sort{SStr}, SBool, nil)
	DeclareUF("dec", []Sort{SInt}, SStr, func(a *Term) []*Term {
		return []*Term{Eq(App("undec", a), a.Args[0]), Le(MkI(1), Len(a)), App("isdec", a),
			Implies(Le(MkI(0), a.Args[0]), And(Eq(Len(a), MkI(1)), Lt(a.Args[0], MkI(10))).orElse(Le(MkI(10), a.Args[0])))}
	})
	ufAlphabet["dec"] = "-0123456789"
	// hex
	DeclareUF("unhex", []Sort{SStr}, SStr, nil)
	DeclareUF("hex", []Sort{SStr}, SStr, func(a *Term) []*Term {
		return []*Term{Eq(App("unhex", a), a.Args[0])}
	})
	ufAlphabet["hex"] = "0123456789abcdef"
	DeclareUF("hexint", []Sort{SInt}, SStr, nil)
	ufAlphabet["hexint"] = "-0123456789abcdef"
	// hashes (A-HASH): injective, fixed length
	for _, h := range []struct {
		n string
		l int
	}{{"H256", 32}, {"H3_512", 64}} {
		name := h.n
		DeclareUF(name+"inv", []Sort{SStr}, SStr, nil)
		DeclareUF(name, []Sort{SStr}, SStr, func(a *Term) []*Term {
			out := []*Term{Eq(App(name+"inv", a), a.Args[0])}
			if a.Args[0].IsConst() { // digests of constants are the real ones
				out = append(out, Eq(a, MkStr(realHash(name, a.Args[0].SV))))
			}
			return out
		})
		ufFixedLen[name] = h.l
	}
	// strings.ToLower: `islower(x)` abstracts "x is pure ASCII without upper-case letters" (then ToLower(x) == x).
	// It is uninterpreted (regular-expression membership made the queries intractable - measured) with only
	// necessary consequences asserted, which over-approximates the real function (sound for verification).
	DeclareUF("islower", []Sort{SStr}, SBool, func(a *Term) []*Term {
		x := a.Args[0]
		out := []*Term{Implies(a, Eq(lowerT(x), x))}
		for _, c := range []string{"A", "B", "C", "D", "E"} {
			out = append(out, Implies(a, Not(Contains(x, MkStr(c)))))
		}
		if x.Op == "str.substr" {
			out = append(out, Implies(isLowerT(x.Args[0]), a))
		}
		if x.Op == "str.replace_all" {
			out = append(out, Implies(And(isLowerT(x.Args[0]), isLowerT(x.Args[2])), a))
		}
		return out
	})
	DeclareUF("lower", []Sort{SStr}, SStr, func(a *Term) []*Term {
		return []*Term{Eq(Len(a), Len(a.Args[0])), isLowerT(a), Implies(isLowerT(a.Args[0]), Eq(a, a.Args[0]))}
	})
	DeclareUF("rnd", []Sort{SInt, SInt, SInt}, SInt, func(a *Term) []*Term {
		return []*Term{Implies(Lt(MkI(0), a.Args[2]), And(Le(MkI(0), a), Lt(a, a.Args[2])))}
	})
	DeclareUF("jsonvalid", []Sort{SStr}, SBool, nil)

	reg := RegisterIntrinsic
	// ---- fmt / errors / log
	reg("fmt.Sprintf", func(c *CallCtx, a []Value) []Outcome { return ret1(c.sprintf(a[0], a[1])) })
	reg("fmt.Sprint", func(c *CallCtx, a []Value) []Outcome { return ret1(c.sprint(a[0])) })
	reg("fmt.Errorf", func(c *CallCtx, a []Value) []Outcome { return ret1(newErr("fmt.Errorf", nil)) })
	reg("errors.New", func(c *CallCtx, a []Value) []Outcome { return ret1(newErr("errors.New", nil)) })
	reg("fmt.Printf", func(c *CallCtx, a []Value) []Outcome { return ret1(tuple(MkI(0), &IfaceV{})) })
	reg("fmt.Println", func(c *CallCtx, a []Value) []Outcome { return ret1(tuple(MkI(0), &IfaceV{})) })
	reg("fmt.Print", func(c *CallCtx, a []Value) []Outcome { return ret1(tuple(MkI(0), &IfaceV{})) })
	reg("opaque:error.Error", func(c *CallCtx, a []Value) []Outcome { return ret1(FreshVar("errtext", SStr)) })
	reg("errors.Is", func(c *CallCtx, a []Value) []Outcome {
		x, y := a[0].(*IfaceV), a[1].(*IfaceV)
		if x.T == nil || y.T == nil {
			return ret1(MkBool(x.T == nil && y.T == nil))
		}
		xo, ok1 := x.V.(*OpaqueV)
		yo, ok2 := y.V.(*OpaqueV)
		if ok1 && ok2 && xo.Kind == "error" && yo.Kind == "error" {
			for d := xo.Data.(*ErrData); d != nil; d = d.Parent {
				if d == yo.Data.(*ErrData) {
					return ret1(TTrue)
				}
			}
			return ret1(TFalse)
		}
		throwf("errors.Is on %T,%T", x.V, y.V)
		return nil
	})
	// ---- strings
	reg("strings.ToLower", func(c *CallCtx, a []Value) []Outcome { return ret1(lowerT(a[0].(*Term))) })
	reg("strings.Contains", func(c *CallCtx, a []Value) []Outcome { return ret1(Contains(a[0].(*Term), a[1].(*Term))) })
	reg("strings.HasPrefix", func(c *CallCtx, a []Value) []Outcome { return ret1(PrefixOf(a[1].(*Term), a[0].(*Term))) })
	reg("strings.HasSuffix", func(c *CallCtx, a []Value) []Outcome { return ret1(SuffixOf(a[1].(*Term), a[0].(*Term))) })
	reg("strings.TrimSuffix", func(c *CallCtx, a []Value) []Outcome {
		s, suf := a[0].(*Term), a[1].(*Term)
		has := c.E.decide(c.S, SuffixOf(suf, s))
		return ret1(Ite(has, Substr(s, MkI(0), Sub(Len(s), Len(suf))), s))
	})
	reg("strings.TrimPrefix", func(c *CallCtx, a []Value) []Outcome {
		s, p := a[0].(*Term), a[1].(*Term)
		return ret1(Ite(PrefixOf(p, s), Substr(s, Len(p), Sub(Len(s), Len(p))), s))
	})
	reg("strings.ReplaceAll", func(c *CallCtx, a []Value) []Outcome {
		return ret1(ReplaceAll(a[0].(*Term), a[1].(*Term), a[2].(*Term)))
	})
	reg("strings.Index", func(c *CallCtx, a []Value) []Outcome {
		return ret1(IndexOf(a[0].(*Term), a[1].(*Term), MkI(0)))
	})
	countFn := func(c *CallCtx, s, sub *Term) []Outcome {
		if s.IsConst() && sub.IsConst() {
			return ret1(MkI(int64(strings.Count(s.SV, sub.SV))))
		}
		if sub.IsConst() && len(sub.SV) == 1 {
			if pieces, ok := splitConcat(c, s, sub.SV); ok {
				return ret1(MkI(int64(len(pieces) - 1)))
			}
		}
		throwf("Count on a string whose separator structure is not determined")
		return nil
	}
	reg("strings.Count", func(c *CallCtx, a []Value) []Outcome { return countFn(c, a[0].(*Term), a[1].(*Term)) })
	reg("bytes.Count", func(c *CallCtx, a []Value) []Outcome { return countFn(c, a[0].(*BytesV).T, a[1].(*BytesV).T) })
	reg("strings.TrimSpace", func(c *CallCtx, a []Value) []Outcome {
		s := a[0].(*Term)
		if s.IsConst() {
			return ret1(MkStr(strings.TrimSpace(s.SV)))
		}
		// ASCII white space only (" \t\n\v\f\r"); the Unicode spaces TrimSpace also strips (U+0085, U+00A0, ...)
		// are treated as ordinary characters: counterexamples are replayed natively before they are reported
		wsChar := `(re.union (str.to_re " ") (str.to_re "\u{9}") (str.to_re "\u{a}") (str.to_re "\u{b}") (str.to_re "\u{c}") (str.to_re "\u{d}"))`
		isWs := func(b byte) bool { return b == ' ' || (b >= 9 && b <= 13) }
		wsStar := func(x string) bool {
			for i := 0; i < len(x); i++ {
				if !isWs(x[i]) {
					return false
				}
			}
			return true
		}
		wsOne := func(x string) bool { return len(x) == 1 && isWs(x[0]) }
		pre, t, post := FreshVar("trim.pre", SStr), FreshVar("trim.mid", SStr), FreshVar("trim.post", SStr)
		cond := And(Eq(s, Concat(pre, t, post)),
			InRe(pre, "(re.* "+wsChar+")", wsStar), InRe(post, "(re.* "+wsChar+")", wsStar),
			Or(Eq(Len(t), MkI(0)),
				And(Not(InRe(StrAt(t, MkI(0)), wsChar, wsOne)), Not(InRe(StrAt(t, Sub(Len(t), MkI(1))), wsChar, wsOne)))))
		return []Outcome{{Cond: cond, Ret: t}}
	})
	reg("strings.Join", func(c *CallCtx, a []Value) []Outcome {
		sl, sep := a[0].(*SliceV), a[1].(*Term)
		var ps []*Term
		for i := 0; i < sl.Len; i++ {
			if i > 0 {
				ps = append(ps, sep)
			}
			ps = append(ps, c.S.load(&Ptr{Obj: sl.Arr, Path: []int{sl.Off + i}}).(*Term))
		}
		return ret1(Concat(ps...))
	})
	reg("strings.Split", intrSplit)
	reg("strings.Compare", func(c *CallCtx, a []Value) []Outcome {
		x, y := a[0].(*Term), a[1].(*Term)
		return ret1(Ite(Eq(x, y), MkI(0), Ite(StrLt(x, y), MkI(-1), MkI(1))))
	})
	reg("strings.EqualFold", func(c *CallCtx, a []Value) []Outcome {
		return ret1(Eq(lowerT(a[0].(*Term)), lowerT(a[1].(*Term))))
	})
	reg("strings.Repeat", func(c *CallCtx, a []Value) []Outcome {
		s, n := a[0].(*Term), a[1].(*Term)
		if s.IsConst() && n.isI() {
			return ret1(MkStr(strings.Repeat(s.SV, int(n.IV.Int64()))))
		}
		throwf("strings.Repeat symbolic")
		return nil
	})
	// ---- bytes
	reg("bytes.Equal", func(c *CallCtx, a []Value) []Outcome { return ret1(Eq(a[0].(*BytesV).T, a[1].(*BytesV).T)) })
	reg("bytes.Compare", func(c *CallCtx, a []Value) []Outcome {
		x, y := a[0].(*BytesV).T, a[1].(*BytesV).T
		return ret1(Ite(Eq(x, y), MkI(0), Ite(StrLt(x, y), MkI(-1), MkI(1))))
	})
	reg("bytes.HasPrefix", func(c *CallCtx, a []Value) []Outcome { return ret1(PrefixOf(a[1].(*BytesV).T, a[0].(*BytesV).T)) })
	// ---- strconv
	reg("strconv.ParseInt", func(c *CallCtx, a []Value) []Outcome {
		s := a[0].(*Term)
		if s.IsConst() {
			v, err := strconv.ParseInt(s.SV, int(a[1].(*Term).IV.Int64()), int(a[2].(*Term).IV.Int64()))
			if err != nil {
				return ret1(tuple(MkI(v), newErr("strconv.ParseInt", nil)))
			}
			return ret1(tuple(MkI(v), &IfaceV{}))
		}
		ok := isDecT(s)
		v := undecT(s)
		lo, hi := intRange(64, true)
		inr := And(Le(MkInt(lo), v), Le(v, MkInt(hi)))
		return []Outcome{
			{Cond: And(ok, inr), Ret: tuple(v, &IfaceV{})},
			{Cond: Not(And(ok, inr)), Ret: tuple(MkI(0), newErr("strconv.ParseInt", nil))},
		}
	})
	reg("strconv.Itoa", func(c *CallCtx, a []Value) []Outcome { return ret1(decT(a[0].(*Term))) })
	reg("strconv.FormatInt", func(c *CallCtx, a []Value) []Outcome {
		if a[1].(*Term).isIv(10) {
			return ret1(decT(a[0].(*Term)))
		}
		return ret1(FreshVar("fmtint", SStr))
	})
	// ---- hex / hashing
	reg("encoding/hex.EncodeToString", func(c *CallCtx, a []Value) []Outcome { return ret1(hexT(a[0].(*BytesV).T)) })
	reg("encoding/hex.DecodeString", func(c *CallCtx, a []Value) []Outcome {
		s := a[0].(*Term)
		if s.IsConst() {
			b, err := hex.DecodeString(s.SV)
			if err != nil {
				return ret1(tuple(&BytesV{T: MkStr(""), NilT: TTrue}, newErr("hex", nil)))
			}
			return ret1(tuple(&BytesV{T: MkStr(string(b)), NilT: TFalse}, &IfaceV{}))
		}
		if s.Op == "uf" && s.SV == "hex" {
			return ret1(tuple(&BytesV{T: s.Args[0], NilT: TFalse}, &IfaceV{}))
		}
		// valid iff s = hex(unhex(s))
		u := App("unhex", s)
		ok := Eq(hexT(u), s)
		return []Outcome{
			{Cond: ok, Ret: tuple(&BytesV{T: u, NilT: TFalse}, &IfaceV{})},
			{Cond: Not(ok), Ret: tuple(&BytesV{T: MkStr(""), NilT: TTrue}, newErr("hex", nil))},
		}
	})
	// go-merkletree's SHA3-512 hash type: Hash(data...) = H3_512(concatenation)
	reg("(*github.com/wealdtech/go-merkletree/v2/sha3.SHA512).Hash", func(c *CallCtx, a []Value) []Outcome {
		sl := a[1].(*SliceV)
		var ps []*Term
		for i := 0; i < sl.Len; i++ {
			ps = append(ps, c.S.load(&Ptr{Obj: sl.Arr, Path: []int{sl.Off + i}}).(*BytesV).T)
		}
		return ret1(&BytesV{T: hashT("H3_512", Concat(ps...)), NilT: TFalse})
	})
	reg("crypto/sha256.New", func(c *CallCtx, a []Value) []Outcome { return ret1(newHash(c.S, "H256")) })
	reg("crypto/sha256.Sum256", func(c *CallCtx, a []Value) []Outcome {
		return ret1(&BytesV{T: hashT("H256", a[0].(*BytesV).T), NilT: TFalse})
	})
	reg("opaque:hash.Write", func(c *CallCtx, a []Value) []Outcome {
		h := a[0].(*IfaceV).V.(*OpaqueV).Data.(*hashState)
		cur := c.S.load(&Ptr{Obj: h.obj}).(*BytesV)
		b := a[1].(*BytesV)
		c.S.hset(h.obj, &BytesV{T: Concat(cur.T, b.T), NilT: TFalse})
		return ret1(tuple(Len(b.T), &IfaceV{}))
	})
	reg("opaque:hash.Sum", func(c *CallCtx, a []Value) []Outcome {
		h := a[0].(*IfaceV).V.(*OpaqueV).Data.(*hashState)
		cur := c.S.load(&Ptr{Obj: h.obj}).(*BytesV)
		pre := a[1].(*BytesV)
		return ret1(&BytesV{T: Concat(pre.T, hashT(h.alg, cur.T)), NilT: TFalse})
	})
	reg("opaque:hash.Reset", func(c *CallCtx, a []Value) []Outcome {
		h := a[0].(*IfaceV).V.(*OpaqueV).Data.(*hashState)
		c.S.hset(h.obj, &BytesV{T: MkStr(""), NilT: TFalse})
		return retNone()
	})
	reg("io.WriteString", func(c *CallCtx, a []Value) []Outcome {
		iv := a[0].(*IfaceV)
		o, ok := iv.V.(*OpaqueV)
		if !ok || o.Kind != "hash" {
			throwf("io.WriteString to %s", showValue(iv))
		}
		h := o.Data.(*hashState)
		cur := c.S.load(&Ptr{Obj: h.obj}).(*BytesV)
		s := a[1].(*Term)
		c.S.hset(h.obj, &BytesV{T: Concat(cur.T, s), NilT: TFalse})
		return ret1(tuple(Len(s), &IfaceV{}))
	})
	// ---- regexp (concrete subject only, else uninterpreted per pattern)
	reg("regexp.MatchString", func(c *CallCtx, a []Value) []Outcome {
		p, s := a[0].(*Term), a[1].(*Term)
		if p.IsConst() && s.IsConst() {
			m, err := regexp.MatchString(p.SV, s.SV)
			if err != nil {
				return ret1(tuple(TFalse, newErr("regexp", nil)))
			}
			return ret1(tuple(MkBool(m), &IfaceV{}))
		}
		if !p.IsConst() {
			throwf("regexp with symbolic pattern")
		}
		name := "re_" + sanitize(p.SV) + fmt.Sprintf("_%x", sha256.Sum256([]byte(p.SV)))[:10]
		DeclareUF(name, []Sort{SStr}, SBool, nil)
		return ret1(tuple(App(name, s), &IfaceV{}))
	})
	// ---- math (concrete floats)
	f1 := func(f func(float64) float64) Intrinsic {
		return func(c *CallCtx, a []Value) []Outcome { return ret1(&FloatV{F: f(a[0].(*FloatV).F)}) }
	}
	reg("math.Log2", f1(math.Log2))
	reg("math.Ceil", f1(math.Ceil))
	reg("math.Floor", f1(math.Floor))
	reg("math.Exp2", f1(math.Exp2))
	reg("math.Sqrt", f1(math.Sqrt))
	reg("math.Pow", func(c *CallCtx, a []Value) []Outcome {
		return ret1(&FloatV{F: math.Pow(a[0].(*FloatV).F, a[1].(*FloatV).F)})
	})
	reg("math/bits.Len", func(c *CallCtx, a []Value) []Outcome {
		t := a[0].(*Term)
		if t.isI() {
			return ret1(MkI(int64(t.IV.BitLen())))
		}
		throwf("bits.Len symbolic")
		return nil
	})
	reg("math/bits.Len64", intrinsics["math/bits.Len"])
	reg("math/bits.LeadingZeros64", func(c *CallCtx, a []Value) []Outcome {
		t := a[0].(*Term)
		if t.isI() {
			return ret1(MkI(int64(64 - t.IV.BitLen())))
		}
		throwf("bits.LeadingZeros64 symbolic")
		return nil
	})
	registerBig()
	registerTime()
	registerJSON()
}

func (t *Term) orElse(o *Term) *Term { return Or(t, o) }

func lowerT(x *Term) *Term {
	if x.IsConst() {
		return MkStr(strings.ToLower(x.SV))
	}
	if x.Op == "uf" && x.SV == "lower" {
		return x
	}
	if x.Op == "str.++" {
		var ps []*Term
		for _, p := range x.Args {
			ps = append(ps, lowerT(p))
		}
		return Concat(ps...)
	}
	if x.Op == "uf" && (x.SV == "hex" || x.SV == "dec" || x.SV == "b32enc") {
		return x
	}
	return App("lower", x)
}

func goNoUpperASCII(s string) bool {
	for i := 0; i < len(s); i++ {
		if s[i] >= 'A' && s[i] <= 'Z' || s[i] >= 0x80 {
			return false
		}
	}
	return true
}

// isLowerT: x is pure ASCII without upper-case letters (then strings.ToLower(x) == x).
func isLowerT(x *Term) *Term {
	if x.IsConst() {
		return MkBool(goNoUpperASCII(x.SV))
	}
	if x.Op == "uf" && (x.SV == "lower" || x.SV == "hex" || x.SV == "dec" || x.SV == "b32enc") {
		return TTrue
	}
	if x.Op == "str.++" {
		var ps []*Term
		for _, p := range x.Args {
			ps = append(ps, isLowerT(p))
		}
		return And(ps...)
	}
	if x.Op == "ite" {
		return Ite(x.Args[0], isLowerT(x.Args[1]), isLowerT(x.Args[2]))
	}
	return App("islower", x)
}

// decT: decimal rendering (%d / strconv.Itoa), exact: SMT str.from_int with an explicit sign.
func decT(t *Term) *Term {
	if t.isI() {
		return MkStr(t.IV.String())
	}
	lo, _ := Bounds(t)
	if lo != nil && lo.Sign() >= 0 {
		return FromInt(t)
	}
	return Ite(Lt(t, MkI(0)), Concat(MkStr("-"), FromInt(Neg(t))), FromInt(t))
}

// undecT / isDecT: strconv.ParseInt(s, 10, 64) on symbolic input (sign handled, no leading '+').
func isDecT(s *Term) *Term {
	neg := PrefixOf(MkStr("-"), s)
	body := Ite(neg, Substr(s, MkI(1), Sub(Len(s), MkI(1))), s)
	return Le(MkI(0), ToInt(body))
}

func undecT(s *Term) *Term {
	neg := PrefixOf(MkStr("-"), s)
	body := Ite(neg, Substr(s, MkI(1), Sub(Len(s), MkI(1))), s)
	return Ite(neg, Neg(ToInt(body)), ToInt(body))
}

func hexT(t *Term) *Term {
	if t.IsConst() {
		return MkStr(hex.EncodeToString([]byte(t.SV)))
	}
	return App("hex", t)
}

// hashT: hashes stay applications of the injective function also for constant inputs (their value is
// pinned to the real digest by an axiom), so that injectivity holds between constants and symbols.
func hashT(alg string, t *Term) *Term { return App(alg, t) }

func realHash(alg, in string) string {
	switch alg {
	case "H256":
		d := sha256.Sum256([]byte(in))
		return string(d[:])
	case "H3_512":
		d := sha3.Sum512([]byte(in))
		return string(d[:])
	}
	panic("realHash " + alg)
}

type hashState struct {
	alg string
	obj int
}

func newHash(s *State, alg string) Value {
	id := s.alloc(&BytesV{T: MkStr(""), NilT: TFalse})
	return opq("hash", &hashState{alg, id})
}

// strings.Split(s, sep) with constant non-empty sep: fork on the number of pieces (bounded).
var SplitMax = 5

func intrSplit(c *CallCtx, a []Value) []Outcome {
	s, sep := a[0].(*Term), a[1].(*Term)
	mkSlice := func(st *State, parts []*Term) Value {
		el := make([]Value, len(parts))
		for i, p := range parts {
			el[i] = p
		}
		id := st.alloc(&ArrayV{el})
		return &SliceV{Arr: id, Len: len(parts), Cap: len(parts)}
	}
	if s.IsConst() && sep.IsConst() {
		return ret1(mkSlice(c.S, mapStr(strings.Split(s.SV, sep.SV))))
	}
	if !sep.IsConst() || sep.SV == "" {
		throwf("strings.Split with symbolic/empty separator")
	}
	// a concatenation whose symbolic parts provably do not contain the separator splits deterministically
	if pieces, ok := splitConcat(c, s, sep.SV); ok {
		return ret1(mkSlice(c.S, pieces))
	}
	// decompose a concat at constant separators where pieces are known sep-free
	var outs []Outcome
	for n := 1; n <= SplitMax; n++ {
		var ps []*Term
		var cs []*Term
		var joined []*Term
		for i := 0; i < n; i++ {
			// the pieces are a function of (string, separator, count): the same call on the same string
			// yields the same piece terms (needed when a step is executed twice, C06)
			memo := fmt.Sprintf("split:%d:%s:%d:%d", s.ID, sep.SV, n, i)
			var p *Term
			if g, ok := c.S.W.Ghost[memo]; ok {
				p = g.(*Term)
			} else {
				p = FreshVar("split", SStr)
				c.S.W.Ghost[memo] = p
			}
			ps = append(ps, p)
			cs = append(cs, Not(Contains(p, sep)))
			if i > 0 {
				joined = append(joined, sep)
			}
			joined = append(joined, p)
		}
		cs = append(cs, Eq(s, Concat(joined...)))
		pp := ps
		outs = append(outs, Outcome{Cond: And(cs...), Ret: lazyRet(func() Value { return nil }), Do: nil})
		k := len(outs) - 1
		outs[k].Ret = nil
		res := c.Res
		outs[k].Do = func(st *State) {
			if res != nil {
				f := st.top()
				f.Locals[f.Info.idx[res]] = mkSlice(st, pp)
			}
		}
	}
	// more pieces than the bound
	cnt := FreshVar("splitmore", SBool)
	_ = cnt
	// inputs with more pieces than the bound are outside the claim (recorded as a bound)
	c.E.mu.Lock()
	c.E.Bounds["strings.Split.pieces"] = SplitMax
	c.E.mu.Unlock()
	return outs
}

func splitConcat(c *CallCtx, s *Term, sep string) ([]*Term, bool) {
	ps := parts(s)
	if len(ps) == 0 {
		return []*Term{MkStr("")}, true
	}
	var pieces []*Term
	cur := []*Term{}
	for _, p := range ps {
		if p.IsConst() {
			segs := strings.Split(p.SV, sep)
			for i, sg := range segs {
				if i > 0 {
					pieces = append(pieces, Concat(cur...))
					cur = []*Term{}
				}
				cur = append(cur, MkStr(sg))
			}
			continue
		}
		if c.E.decide(c.S, Contains(p, MkStr(sep))) != TFalse {
			return nil, false
		}
		cur = append(cur, p)
	}
	pieces = append(pieces, Concat(cur...))
	// a multi-character separator could straddle two parts: only single characters are handled exactly
	if len(sep) != 1 {
		return nil, false
	}
	return pieces, true
}

// splitMoreThan: s contains at least n occurrences of sep: s = p0 sep p1 sep ... sep pn (pieces arbitrary)
func splitMoreThan(s, sep *Term, n int) *Term {
	var joined []*Term
	for i := 0; i <= n; i++ {
		if i > 0 {
			joined = append(joined, sep)
		}
		joined = append(joined, FreshVar("splitx", SStr))
	}
	return Eq(s, Concat(joined...))
}

func mapStr(ss []string) []*Term {
	var out []*Term
	for _, s := range ss {
		out = append(out, MkStr(s))
	}
	return out
}

// ---------- fmt

func (c *CallCtx) sprint(argsV Value) Value {
	sl := argsV.(*SliceV)
	var ps []*Term
	for i := 0; i < sl.Len; i++ {
		ps = append(ps, c.fmtArg('v', c.S.load(&Ptr{Obj: sl.Arr, Path: []int{sl.Off + i}})))
	}
	return Concat(ps...)
}

func (c *CallCtx) sprintf(format Value, argsV Value) Value {
	ft := format.(*Term)
	if !ft.IsConst() {
		return FreshVar("sprintf", SStr)
	}
	sl := argsV.(*SliceV)
	var args []Value
	for i := 0; i < sl.Len; i++ {
		args = append(args, c.S.load(&Ptr{Obj: sl.Arr, Path: []int{sl.Off + i}}))
	}
	f := ft.SV
	var ps []*Term
	ai := 0
	for i := 0; i < len(f); i++ {
		if f[i] != '%' {
			j := i
			for j < len(f) && f[j] != '%' {
				j++
			}
			ps = append(ps, MkStr(f[i:j]))
			i = j - 1
			continue
		}
		i++
		if i >= len(f) {
			break
		}
		if f[i] == '%' {
			ps = append(ps, MkStr("%"))
			continue
		}
		// flags/width are not modelled precisely
		simple := true
		for i < len(f) && strings.ContainsRune("+-# 0123456789.", rune(f[i])) {
			simple = false
			i++
		}
		if i >= len(f) {
			break
		}
		verb := f[i]
		if ai >= len(args) {
			ps = append(ps, MkStr("%!"+string(verb)+"(MISSING)"))
			continue
		}
		if !simple {
			// zero-padded decimal of a constant (e.g. %03d)
			if pad := padSpec(f, i); pad > 0 && verb == 'd' {
				if iv, ok := args[ai].(*IfaceV); ok {
					if t, ok := iv.V.(*Term); ok && t.isI() && t.IV.Sign() >= 0 {
						d := t.IV.String()
						for len(d) < pad {
							d = "0" + d
						}
						ps = append(ps, MkStr(d))
						ai++
						continue
					}
				}
			}
			ps = append(ps, FreshVar("fmtw", SStr))
			ai++
			continue
		}
		ps = append(ps, c.fmtArg(verb, args[ai]))
		ai++
	}
	return Concat(ps...)
}

// padSpec recognises "%0Nd" ending at index i (the verb) and returns N.
func padSpec(f string, i int) int {
	j := i - 1
	n, mul := 0, 1
	for j >= 0 && f[j] >= '0' && f[j] <= '9' {
		n += int(f[j]-'0') * mul
		mul *= 10
		j--
	}
	if j >= 0 && f[j] == '%' && i-j >= 3 && f[j+1] == '0' {
		return n
	}
	return 0
}

func (c *CallCtx) fmtArg(verb byte, v Value) *Term {
	iv, ok := v.(*IfaceV)
	if !ok {
		return FreshVar("fmt", SStr)
	}
	if iv.T == nil {
		return MkStr("<nil>")
	}
	val := iv.V
	switch verb {
	case 's', 'v', 'q':
		switch x := val.(type) {
		case *Term:
			switch x.Sort {
			case SStr:
				if verb == 'q' {
					return FreshVar("fmtq", SStr)
				}
				return x
			case SInt:
				if verb == 'v' {
					return decT(x)
				}
			case SBool:
				if verb == 'v' {
					return Ite(x, MkStr("true"), MkStr("false"))
				}
			}
		case *BytesV:
			if isNamed(iv.T, "github.com/cosmos/cosmos-sdk/types", "AccAddress") {
				return b32encT(x.T)
			}
			if verb == 's' {
				return x.T
			}
		}
		return FreshVar("fmt", SStr)
	case 'd':
		if x, ok := val.(*Term); ok && x.Sort == SInt {
			return decT(x)
		}
	case 'x':
		switch x := val.(type) {
		case *BytesV:
			return hexT(x.T)
		case *Term:
			if x.Sort == SStr {
				return hexT(x)
			}
			if x.Sort == SInt {
				if x.isI() {
					return MkStr(x.IV.Text(16))
				}
				return App("hexint", x)
			}
		}
	case 't':
		if x, ok := val.(*Term); ok && x.Sort == SBool {
			return Ite(x, MkStr("true"), MkStr("false"))
		}
	}
	return FreshVar("fmt", SStr)
}

// ---------- math/big

func bigOfPtr(s *State, v Value) *Term {
	p, ok := v.(*Ptr)
	if !ok {
		throwf("big.Int operand %T", v)
	}
	if p.Nil {
		panic(goPanic{"nil *big.Int dereference"})
	}
	b, ok := s.load(p).(*BigV)
	if !ok {
		throwf("big.Int cell holds %T", s.load(p))
	}
	return b.T
}

func newBig(s *State, t *Term) *Ptr {
	return &Ptr{Obj: s.alloc(&BigV{t})}
}

// signAware specialises truncated division/remainder when the path condition fixes the operand signs
// (spares the solvers the four-way sign case split of Go's truncating semantics).
func signAware(c *CallCtx, f func(x, y *Term) *Term, x, y *Term) func(x, y *Term) *Term {
	if x.isI() || y.isI() && false {
		return f
	}
	xlo, _ := Bounds(x)
	ylo, _ := Bounds(y)
	if xlo != nil && xlo.Sign() >= 0 && ylo != nil && ylo.Sign() > 0 {
		return f
	}
	xNonNeg := c.E.decide(c.S, Le(MkI(0), x)) == TTrue
	yPos := c.E.decide(c.S, Lt(MkI(0), y)) == TTrue
	if xNonNeg && yPos {
		isRem := f(MkI(7), MkI(2)).isIv(1)
		if isRem {
			return func(x, y *Term) *Term { return Mod(x, y) }
		}
		return func(x, y *Term) *Term { return Div(x, y) }
	}
	return f
}

func registerBig() {
	reg := RegisterIntrinsic
	setRecv := func(c *CallCtx, recv Value, t *Term) []Outcome {
		p := recv.(*Ptr)
		if p.Nil {
			panic(goPanic{"nil *big.Int receiver"})
		}
		c.S.store(p, &BigV{t})
		return ret1(p)
	}
	reg("math/big.NewInt", func(c *CallCtx, a []Value) []Outcome { return ret1(newBig(c.S, a[0].(*Term))) })
	un := func(f func(x *Term) *Term) Intrinsic {
		return func(c *CallCtx, a []Value) []Outcome { return setRecv(c, a[0], f(bigOfPtr(c.S, a[1]))) }
	}
	bin := func(f func(x, y *Term) *Term) Intrinsic {
		return func(c *CallCtx, a []Value) []Outcome {
			return setRecv(c, a[0], f(bigOfPtr(c.S, a[1]), bigOfPtr(c.S, a[2])))
		}
	}
	divz := func(f0 func(x, y *Term) *Term) Intrinsic {
		return func(c *CallCtx, a []Value) []Outcome {
			x, y := bigOfPtr(c.S, a[1]), bigOfPtr(c.S, a[2])
			f := signAware(c, f0, x, y)
			z := Eq(y, MkI(0))
			recv := a[0].(*Ptr)
			if z == TTrue {
				panic(goPanic{"division by zero"})
			}
			do := func(st *State) { st.store(recv, &BigV{f(x, y)}) }
			if z == TFalse {
				do(c.S)
				return ret1(recv)
			}
			return []Outcome{{Cond: z, Panic: "division by zero"}, {Cond: Not(z), Do: do, Ret: recv}}
		}
	}
	reg("(*math/big.Int).Set", un(func(x *Term) *Term { return x }))
	reg("(*math/big.Int).Neg", un(Neg))
	reg("(*math/big.Int).Abs", un(Abs))
	reg("(*math/big.Int).Add", bin(Add))
	reg("(*math/big.Int).Sub", bin(Sub))
	reg("(*math/big.Int).Mul", bin(Mul))
	reg("(*math/big.Int).Quo", divz(truncDiv))
	reg("(*math/big.Int).Rem", divz(truncRem))
	reg("(*math/big.Int).Div", divz(Div))
	reg("(*math/big.Int).Mod", divz(Mod))
	reg("(*math/big.Int).QuoRem", func(c *CallCtx, a []Value) []Outcome {
		x, y := bigOfPtr(c.S, a[1]), bigOfPtr(c.S, a[2])
		z := Eq(y, MkI(0))
		recv, rp := a[0].(*Ptr), a[3].(*Ptr)
		if z == TTrue {
			panic(goPanic{"division by zero"})
		}
		q, r := signAware(c, truncDiv, x, y)(x, y), signAware(c, truncRem, x, y)(x, y)
		do := func(st *State) {
			st.store(recv, &BigV{q})
			st.store(rp, &BigV{r})
		}
		if z == TFalse {
			do(c.S)
			return ret1(tuple(recv, rp))
		}
		return []Outcome{{Cond: z, Panic: "division by zero"}, {Cond: Not(z), Do: do, Ret: tuple(recv, rp)}}
	})
	reg("(*math/big.Int).SetInt64", func(c *CallCtx, a []Value) []Outcome { return setRecv(c, a[0], a[1].(*Term)) })
	reg("(*math/big.Int).SetUint64", func(c *CallCtx, a []Value) []Outcome { return setRecv(c, a[0], a[1].(*Term)) })
	reg("(*math/big.Int).Cmp", func(c *CallCtx, a []Value) []Outcome {
		x, y := bigOfPtr(c.S, a[0]), bigOfPtr(c.S, a[1])
		return ret1(Ite(Lt(x, y), MkI(-1), Ite(Lt(y, x), MkI(1), MkI(0))))
	})
	reg("(*math/big.Int).CmpAbs", func(c *CallCtx, a []Value) []Outcome {
		x, y := Abs(bigOfPtr(c.S, a[0])), Abs(bigOfPtr(c.S, a[1]))
		return ret1(Ite(Lt(x, y), MkI(-1), Ite(Lt(y, x), MkI(1), MkI(0))))
	})
	reg("(*math/big.Int).Sign", func(c *CallCtx, a []Value) []Outcome {
		x := bigOfPtr(c.S, a[0])
		return ret1(Ite(Lt(x, MkI(0)), MkI(-1), Ite(Lt(MkI(0), x), MkI(1), MkI(0))))
	})
	reg("(*math/big.Int).Int64", func(c *CallCtx, a []Value) []Outcome {
		return ret1(c.E.wrap(c.S, bigOfPtr(c.S, a[0]), 64, true, "big.Int64"))
	})
	reg("(*math/big.Int).Uint64", func(c *CallCtx, a []Value) []Outcome {
		return ret1(c.E.wrap(c.S, Abs(bigOfPtr(c.S, a[0])), 64, false, "big.Uint64"))
	})
	reg("(*math/big.Int).IsInt64", func(c *CallCtx, a []Value) []Outcome {
		x := bigOfPtr(c.S, a[0])
		lo, hi := intRange(64, true)
		return ret1(And(Le(MkInt(lo), x), Le(x, MkInt(hi))))
	})
	reg("(*math/big.Int).IsUint64", func(c *CallCtx, a []Value) []Outcome {
		x := bigOfPtr(c.S, a[0])
		_, hi := intRange(64, false)
		return ret1(And(Le(MkI(0), x), Le(x, MkInt(hi))))
	})
	reg("(*math/big.Int).BitLen", func(c *CallCtx, a []Value) []Outcome {
		x := bigOfPtr(c.S, a[0])
		if x.isI() {
			return ret1(MkI(int64(x.IV.BitLen())))
		}
		return ret1(App("bitlen", x))
	})
	reg("(*math/big.Int).Bit", func(c *CallCtx, a []Value) []Outcome {
		x, i := bigOfPtr(c.S, a[0]), a[1].(*Term)
		if !i.isI() {
			throwf("big.Int.Bit symbolic index")
		}
		return ret1(Mod(Div(Abs(x), MkInt(pow2(uint(i.IV.Int64())))), MkI(2)))
	})
	reg("(*math/big.Int).Exp", func(c *CallCtx, a []Value) []Outcome {
		x, y := bigOfPtr(c.S, a[1]), bigOfPtr(c.S, a[2])
		mp := a[3].(*Ptr)
		if x.isI() && y.isI() && mp.Nil {
			return setRecv(c, a[0], MkInt(new(big.Int).Exp(x.IV, y.IV, nil)))
		}
		throwf("big.Int.Exp symbolic")
		return nil
	})
	reg("(*math/big.Int).SetString", func(c *CallCtx, a []Value) []Outcome {
		s, base := a[1].(*Term), a[2].(*Term)
		if s.IsConst() && base.isI() {
			v, ok := new(big.Int).SetString(s.SV, int(base.IV.Int64()))
			if !ok {
				return ret1(tuple(NilPtr, TFalse))
			}
			p := a[0].(*Ptr)
			c.S.store(p, &BigV{MkInt(v)})
			return ret1(tuple(p, TTrue))
		}
		// symbolic decimal string
		ok := isDecT(s)
		p := a[0].(*Ptr)
		return []Outcome{
			{Cond: ok, Do: func(st *State) { st.store(p, &BigV{undecT(s)}) }, Ret: tuple(p, TTrue)},
			{Cond: Not(ok), Ret: tuple(NilPtr, TFalse)},
		}
	})
	reg("(*math/big.Int).String", func(c *CallCtx, a []Value) []Outcome { return ret1(decT(bigOfPtr(c.S, a[0]))) })
	reg("(*math/big.Int).Lsh", func(c *CallCtx, a []Value) []Outcome {
		x, n := bigOfPtr(c.S, a[1]), a[2].(*Term)
		if !n.isI() {
			throwf("Lsh symbolic")
		}
		return setRecv(c, a[0], Mul(x, MkInt(pow2(uint(n.IV.Int64())))))
	})
	reg("(*math/big.Int).Rsh", func(c *CallCtx, a []Value) []Outcome {
		x, n := bigOfPtr(c.S, a[1]), a[2].(*Term)
		if !n.isI() {
			throwf("Rsh symbolic")
		}
		return setRecv(c, a[0], Div(x, MkInt(pow2(uint(n.IV.Int64())))))
	})
	reg("(*math/big.Int).SetBytes", func(c *CallCtx, a []Value) []Outcome {
		b := a[1].(*BytesV)
		if b.T.IsConst() {
			return setRecv(c, a[0], MkInt(new(big.Int).SetBytes([]byte(b.T.SV))))
		}
		throwf("SetBytes symbolic")
		return nil
	})
}
