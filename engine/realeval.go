package gosym

// Real evaluation of terms for scenario concretisation: variables take their final scenario values and
// the abstracted library functions (hashes, hex, bech32, decimal rendering) are computed for real, so
// that inputs the model tied to a hash value are recomputed rather than copied from the model.

import (
	"crypto/sha256"
	"encoding/hex"
	"math/big"

	"golang.org/x/crypto/sha3"
)

type realEnv struct {
	vars map[int]MVal // by term id
	memo map[int]MVal
}

func (r *realEnv) eval(t *Term) (MVal, bool) {
	if v, ok := r.memo[t.ID]; ok {
		return v, true
	}
	v, ok := r.eval1(t)
	if ok {
		r.memo[t.ID] = v
	}
	return v, ok
}

func (r *realEnv) eval1(t *Term) (MVal, bool) {
	switch t.Op {
	case "var":
		v, ok := r.vars[t.ID]
		return v, ok
	case "uf":
		var args []MVal
		for _, a := range t.Args {
			v, ok := r.eval(a)
			if !ok {
				return MVal{}, false
			}
			args = append(args, v)
		}
		switch t.SV {
		case "hex":
			return mvS(hex.EncodeToString([]byte(*args[0].S))), true
		case "H256":
			d := sha256.Sum256([]byte(*args[0].S))
			return mvS(string(d[:])), true
		case "H3_512":
			d := sha3.Sum512([]byte(*args[0].S))
			return mvS(string(d[:])), true
		case "b32enc":
			return mvS(Bech32Encode("jkl", []byte(*args[0].S))), true
		case "modaddr":
			d := sha256.Sum256([]byte(*args[0].S))
			return mvS(string(d[:20])), true
		case "coinstr":
			if args[0].I.Sign() < 0 {
				return MVal{}, false
			}
			return mvS(args[0].I.String() + *args[1].S), true
		}
		return MVal{}, false
	}
	// everything else: ordinary evaluation over the children
	cm := &CachedModel{vals: map[int]MVal{}}
	for _, a := range t.Args {
		v, ok := r.eval(a)
		if !ok {
			return MVal{}, false
		}
		cm.vals[a.ID] = v
	}
	// evaluate t with its children bound: build a shallow copy whose args are looked up by id
	shallow := &Term{ID: -t.ID - 1, Op: t.Op, Sort: t.Sort, IV: t.IV, SV: t.SV, BV: t.BV}
	for _, a := range t.Args {
		shallow.Args = append(shallow.Args, &Term{ID: a.ID, Op: "var", Sort: a.Sort})
	}
	return cm.eval(shallow, map[int]MVal{})
}

// hashApps collects the hash / hex applications occurring in the terms.
func hashApps(ts []*Term) []*Term {
	seen := map[int]bool{}
	var out []*Term
	var walk func(t *Term)
	walk = func(t *Term) {
		if seen[t.ID] {
			return
		}
		seen[t.ID] = true
		for _, a := range t.Args {
			walk(a)
		}
		if t.Op == "uf" && (t.SV == "hex" || t.SV == "H256" || t.SV == "H3_512") {
			out = append(out, t)
		}
	}
	for _, t := range ts {
		walk(t)
	}
	return out
}

// ufApps collects the applications of the named uninterpreted functions occurring in the terms.
func ufApps(ts []*Term, names ...string) []*Term {
	seen := map[int]bool{}
	var out []*Term
	var walk func(t *Term)
	walk = func(t *Term) {
		if seen[t.ID] {
			return
		}
		seen[t.ID] = true
		for _, a := range t.Args {
			walk(a)
		}
		if t.Op == "uf" {
			for _, n := range names {
				if t.SV == n {
					out = append(out, t)
				}
			}
		}
	}
	for _, t := range ts {
		walk(t)
	}
	return out
}

var _ = big.NewInt
