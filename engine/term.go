package gosym

// Hash-consed SMT terms over sorts Int, Bool, String with an eager simplifier.

import (
	"fmt"
	"math/big"
	"sort"
	"strings"
	"sync"
)

type Sort uint8

const (
	SInt Sort = iota
	SBool
	SStr
)

func (s Sort) String() string {
	switch s {
	case SInt:
		return "Int"
	case SBool:
		return "Bool"
	}
	return "String"
}

type Term struct {
	ID   int
	Op   string // "const" "var" "+" "-" "*" "div" "mod" "neg" "ite" "=" "<" "<=" "not" "and" "or" str ops, "uf"
	Args []*Term
	Sort Sort
	IV   *big.Int // Int const
	SV   string   // Str const, var name, uf name
	BV   bool     // Bool const
}

type UFSig struct {
	Name string
	Args []Sort
	Ret  Sort
}

var (
	termMu     sync.Mutex
	termTab    = map[string]*Term{}
	termNext   = 1
	varBoundLo = map[int]*big.Int{}
	varBoundHi = map[int]*big.Int{}
	ufSigs     = map[string]*UFSig{}
	ufAxioms   = map[string]func(app *Term) []*Term{}
	freshCtr   = map[string]int{}
)

func intern(t *Term) *Term {
	var sb strings.Builder
	sb.WriteString(t.Op)
	sb.WriteByte('|')
	sb.WriteByte(byte('0' + t.Sort))
	sb.WriteByte('|')
	switch t.Op {
	case "const":
		switch t.Sort {
		case SInt:
			sb.WriteString(t.IV.String())
		case SBool:
			if t.BV {
				sb.WriteByte('T')
			} else {
				sb.WriteByte('F')
			}
		case SStr:
			sb.WriteString(t.SV)
		}
	case "var", "uf", "str.in_re":
		sb.WriteString(t.SV)
	}
	for _, a := range t.Args {
		fmt.Fprintf(&sb, ",%d", a.ID)
	}
	key := sb.String()
	termMu.Lock()
	defer termMu.Unlock()
	if o, ok := termTab[key]; ok {
		return o
	}
	t.ID = termNext
	termNext++
	termTab[key] = t
	return t
}

func (t *Term) IsConst() bool { return t.Op == "const" }

func (t *Term) String() string { return smtExpr(t, nil) }

// ---------- constructors: constants and variables

var (
	TTrue  = intern(&Term{Op: "const", Sort: SBool, BV: true})
	TFalse = intern(&Term{Op: "const", Sort: SBool, BV: false})
)

func MkBool(b bool) *Term {
	if b {
		return TTrue
	}
	return TFalse
}
func MkInt(v *big.Int) *Term { return intern(&Term{Op: "const", Sort: SInt, IV: new(big.Int).Set(v)}) }
func MkI(v int64) *Term      { return MkInt(big.NewInt(v)) }
func MkU(v uint64) *Term     { return MkInt(new(big.Int).SetUint64(v)) }
func MkStr(s string) *Term   { return intern(&Term{Op: "const", Sort: SStr, SV: s}) }
var varByID = map[int]*Term{}

func MkVar(name string, s Sort) *Term {
	t := intern(&Term{Op: "var", Sort: s, SV: name})
	termMu.Lock()
	varByID[t.ID] = t
	termMu.Unlock()
	return t
}

// GuessModel tries a few simple assignments (bounds, small numbers) for the variables of the
// constraints and returns one that satisfies all of them by direct evaluation (a feasibility witness
// that needs no solver); nil if none of the guesses works or uninterpreted functions are involved.
func GuessModel(asserts []*Term) *CachedModel {
	ids := map[int]bool{}
	for _, a := range asserts {
		for _, x := range Symbols(a) {
			if x < 0 {
				return nil
			}
			ids[x] = true
		}
	}
	for _, mode := range []int{0, 1, 2, 3, 4} {
		cm := &CachedModel{vals: map[int]MVal{}}
		for id := range ids {
			termMu.Lock()
			v := varByID[id]
			lo, hi := varBoundLo[id], varBoundHi[id]
			termMu.Unlock()
			if v == nil {
				return nil
			}
			switch v.Sort {
			case SBool:
				cm.vals[id] = mvB(mode%2 == 1)
			case SStr:
				cm.vals[id] = mvS([]string{"", "a", "ab", "jkl", "x"}[mode])
			case SInt:
				val := big.NewInt(int64([]int{0, 1, 2, 7, 100}[mode]))
				if lo != nil && val.Cmp(lo) < 0 {
					val = lo
				}
				if hi != nil && val.Cmp(hi) > 0 {
					val = hi
				}
				cm.vals[id] = mvI(val)
			}
		}
		ok := true
		for _, a := range asserts {
			r, e := cm.Eval(a)
			if !e || !*r.B {
				ok = false
				break
			}
		}
		if ok {
			return cm
		}
	}
	return nil
}

// FreshVar makes a variable with a name unique in the process.
func FreshVar(prefix string, s Sort) *Term {
	termMu.Lock()
	freshCtr[prefix]++
	n := freshCtr[prefix]
	termMu.Unlock()
	return MkVar(fmt.Sprintf("%s!%d", sanitize(prefix), n), s)
}

func sanitize(s string) string {
	var sb strings.Builder
	for _, r := range s {
		if r >= 'a' && r <= 'z' || r >= 'A' && r <= 'Z' || r >= '0' && r <= '9' || r == '_' || r == '.' || r == '!' || r == '-' {
			sb.WriteRune(r)
		} else {
			sb.WriteByte('_')
		}
	}
	return sb.String()
}

func SetVarBounds(v *Term, lo, hi *big.Int) {
	termMu.Lock()
	if old, ok := varBoundLo[v.ID]; ok && lo != nil && old.Cmp(lo) != 0 {
		termMu.Unlock()
		panic("conflicting bounds for variable " + v.SV)
	}
	if old, ok := varBoundHi[v.ID]; ok && hi != nil && old.Cmp(hi) != 0 {
		termMu.Unlock()
		panic("conflicting bounds for variable " + v.SV)
	}
	if lo != nil {
		varBoundLo[v.ID] = lo
	}
	if hi != nil {
		varBoundHi[v.ID] = hi
	}
	termMu.Unlock()
}

func DeclareUF(name string, args []Sort, ret Sort, axioms func(app *Term) []*Term) {
	termMu.Lock()
	defer termMu.Unlock()
	if _, ok := ufSigs[name]; ok {
		return
	}
	ufSigs[name] = &UFSig{name, args, ret}
	if axioms != nil {
		ufAxioms[name] = axioms
	}
}

func App(name string, args ...*Term) *Term {
	termMu.Lock()
	sig := ufSigs[name]
	termMu.Unlock()
	if sig == nil {
		panic("undeclared UF " + name)
	}
	if len(sig.Args) != len(args) {
		panic("UF arity " + name)
	}
	for i, a := range args {
		if a.Sort != sig.Args[i] {
			panic(fmt.Sprintf("UF %s arg %d sort %v want %v", name, i, a.Sort, sig.Args[i]))
		}
	}
	return intern(&Term{Op: "uf", SV: name, Args: args, Sort: sig.Ret})
}

// ---------- Int

func (t *Term) isI() bool               { return t.Op == "const" && t.Sort == SInt }
func (t *Term) isIv(v int64) bool       { return t.isI() && t.IV.IsInt64() && t.IV.Int64() == v }
func bigOf(v int64) *big.Int            { return big.NewInt(v) }
func pow2(n uint) *big.Int              { return new(big.Int).Lsh(big.NewInt(1), n) }
func mk(op string, s Sort, a ...*Term) *Term { return intern(&Term{Op: op, Sort: s, Args: a}) }

// ---------- linear normal form: sums are kept as  c1*a1 + c2*a2 + ... + k  with atoms ordered by id

type linForm struct {
	coef  map[int]*big.Int
	atoms map[int]*Term
	k     *big.Int
}

func newLin() *linForm {
	return &linForm{coef: map[int]*big.Int{}, atoms: map[int]*Term{}, k: new(big.Int)}
}

func (l *linForm) addAtom(a *Term, c *big.Int) {
	if c.Sign() == 0 {
		return
	}
	if old, ok := l.coef[a.ID]; ok {
		n := new(big.Int).Add(old, c)
		if n.Sign() == 0 {
			delete(l.coef, a.ID)
			delete(l.atoms, a.ID)
		} else {
			l.coef[a.ID] = n
		}
		return
	}
	l.coef[a.ID] = new(big.Int).Set(c)
	l.atoms[a.ID] = a
}

// linAdd accumulates scale*t into l.
func linAdd(l *linForm, t *Term, scale *big.Int, depth int) {
	if scale.Sign() == 0 {
		return
	}
	if t.isI() {
		l.k.Add(l.k, new(big.Int).Mul(t.IV, scale))
		return
	}
	if depth < 64 {
		switch t.Op {
		case "+":
			for _, a := range t.Args {
				linAdd(l, a, scale, depth+1)
			}
			return
		case "-":
			linAdd(l, t.Args[0], scale, depth+1)
			linAdd(l, t.Args[1], new(big.Int).Neg(scale), depth+1)
			return
		case "neg":
			linAdd(l, t.Args[0], new(big.Int).Neg(scale), depth+1)
			return
		case "*":
			if t.Args[1].isI() {
				linAdd(l, t.Args[0], new(big.Int).Mul(scale, t.Args[1].IV), depth+1)
				return
			}
			if t.Args[0].isI() {
				linAdd(l, t.Args[1], new(big.Int).Mul(scale, t.Args[0].IV), depth+1)
				return
			}
		}
	}
	l.addAtom(t, scale)
}

func fromLin(l *linForm) *Term {
	ids := make([]int, 0, len(l.coef))
	for id := range l.coef {
		ids = append(ids, id)
	}
	sort.Ints(ids)
	var acc *Term
	for _, id := range ids {
		c, a := l.coef[id], l.atoms[id]
		var term *Term
		switch {
		case c.Cmp(big.NewInt(1)) == 0:
			term = a
		case c.Cmp(big.NewInt(-1)) == 0:
			term = mk("neg", SInt, a)
		default:
			term = mk("*", SInt, a, MkInt(c))
		}
		if acc == nil {
			acc = term
		} else {
			acc = mk("+", SInt, acc, term)
		}
	}
	if acc == nil {
		return MkInt(l.k)
	}
	if l.k.Sign() != 0 {
		acc = mk("+", SInt, acc, MkInt(l.k))
	}
	return acc
}

var bigOne = big.NewInt(1)
var bigMinusOne = big.NewInt(-1)

func Add(a, b *Term) *Term {
	if a.isI() && b.isI() {
		return MkInt(new(big.Int).Add(a.IV, b.IV))
	}
	if a.isIv(0) {
		return b
	}
	if b.isIv(0) {
		return a
	}
	l := newLin()
	linAdd(l, a, bigOne, 0)
	linAdd(l, b, bigOne, 0)
	return fromLin(l)
}

func Sub(a, b *Term) *Term {
	if a == b {
		return MkI(0)
	}
	if a.isI() && b.isI() {
		return MkInt(new(big.Int).Sub(a.IV, b.IV))
	}
	if b.isIv(0) {
		return a
	}
	l := newLin()
	linAdd(l, a, bigOne, 0)
	linAdd(l, b, bigMinusOne, 0)
	return fromLin(l)
}

func Neg(a *Term) *Term {
	if a.isI() {
		return MkInt(new(big.Int).Neg(a.IV))
	}
	if a.Op == "neg" {
		return a.Args[0]
	}
	l := newLin()
	linAdd(l, a, bigMinusOne, 0)
	return fromLin(l)
}

func Mul(a, b *Term) *Term {
	if a.isI() && b.isI() {
		return MkInt(new(big.Int).Mul(a.IV, b.IV))
	}
	if a.isI() {
		a, b = b, a
	}
	if b.isI() {
		if b.isIv(0) {
			return MkI(0)
		}
		if b.isIv(1) {
			return a
		}
		// distribute the constant over sums (keeps everything in linear normal form); ite stays atomic
		if a.Op == "+" || a.Op == "-" || a.Op == "neg" || a.Op == "*" && (a.Args[1].isI() || a.Args[0].isI()) {
			l := newLin()
			linAdd(l, a, b.IV, 0)
			return fromLin(l)
		}
	}
	// distribute over an ite with constant leaves: keeps products linear for the solvers
	if x, y, ok := iteConstLeaves(a, b); ok {
		return Ite(x.Args[0], Mul(x.Args[1], y), Mul(x.Args[2], y))
	}
	return mk("*", SInt, a, b)
}

func constLeaves(t *Term, depth int) bool {
	if t.isI() {
		return true
	}
	if t.Op == "ite" && depth < 8 {
		return constLeaves(t.Args[1], depth+1) && constLeaves(t.Args[2], depth+1)
	}
	if t.Op == "*" && t.Args[1].isI() {
		return constLeaves(t.Args[0], depth+1)
	}
	return false
}

func iteConstLeaves(a, b *Term) (*Term, *Term, bool) {
	if a.Op == "ite" && constLeaves(a, 0) {
		return a, b, true
	}
	if b.Op == "ite" && constLeaves(b, 0) {
		return b, a, true
	}
	return nil, nil, false
}

// Div is SMT-LIB Euclidean division (floor for positive divisor).
func Div(a, b *Term) *Term {
	if a.isI() && b.isI() && b.IV.Sign() != 0 {
		q, _ := new(big.Int).DivMod(a.IV, b.IV, new(big.Int)) // Euclidean
		return MkInt(q)
	}
	if b.isIv(1) {
		return a
	}
	if a.isIv(0) && !(b.isI() && b.IV.Sign() == 0) {
		return a
	}
	// cancel the common constant factor of a linear numerator and a (constant multiple of an atom) denominator
	if !b.isI() || true {
		if r := cancelContent(a, b); r != nil {
			return r
		}
	}
	// div (x*c1) c2 with common factor
	if b.isI() && b.IV.Sign() > 0 && a.Op == "*" && a.Args[1].isI() && a.Args[1].IV.Sign() > 0 {
		g := new(big.Int).GCD(nil, nil, a.Args[1].IV, b.IV)
		if g.Cmp(big.NewInt(1)) > 0 {
			c1 := new(big.Int).Quo(a.Args[1].IV, g)
			c2 := new(big.Int).Quo(b.IV, g)
			return Div(Mul(a.Args[0], MkInt(c1)), MkInt(c2))
		}
	}
	return mk("div", SInt, a, b)
}

// cancelContent: div (g*a') (g*b') = div a' b' for a positive common constant g (Euclidean division).
func cancelContent(a, b *Term) *Term {
	la, lb := newLin(), newLin()
	linAdd(la, a, bigOne, 0)
	linAdd(lb, b, bigOne, 0)
	g := new(big.Int)
	for _, l := range []*linForm{la, lb} {
		for _, c := range l.coef {
			g.GCD(nil, nil, g, new(big.Int).Abs(c))
		}
		g.GCD(nil, nil, g, new(big.Int).Abs(l.k))
	}
	if g.Cmp(bigOne) <= 0 {
		return nil
	}
	scale := func(l *linForm) *Term {
		n := newLin()
		for id, c := range l.coef {
			n.coef[id] = new(big.Int).Quo(c, g)
			n.atoms[id] = l.atoms[id]
		}
		n.k = new(big.Int).Quo(l.k, g)
		return fromLin(n)
	}
	return Div(scale(la), scale(lb))
}

func Mod(a, b *Term) *Term {
	if a.isI() && b.isI() && b.IV.Sign() != 0 {
		_, m := new(big.Int).DivMod(a.IV, b.IV, new(big.Int))
		return MkInt(m)
	}
	if b.isIv(1) {
		return MkI(0)
	}
	return mk("mod", SInt, a, b)
}

func Abs(a *Term) *Term {
	if a.isI() {
		return MkInt(new(big.Int).Abs(a.IV))
	}
	lo, _ := Bounds(a)
	if lo != nil && lo.Sign() >= 0 {
		return a
	}
	return Ite(Lt(a, MkI(0)), Neg(a), a)
}

func Ite(c, a, b *Term) *Term {
	if c == TTrue {
		return a
	}
	if c == TFalse {
		return b
	}
	if a == b {
		return a
	}
	if a.Sort == SBool {
		if a == TTrue && b == TFalse {
			return c
		}
		if a == TFalse && b == TTrue {
			return Not(c)
		}
		if a == TTrue {
			return Or(c, b)
		}
		if a == TFalse {
			return And(Not(c), b)
		}
		if b == TTrue {
			return Or(Not(c), a)
		}
		if b == TFalse {
			return And(c, a)
		}
	}
	if c.Op == "not" {
		return Ite(c.Args[0], b, a)
	}
	return mk("ite", a.Sort, c, a, b)
}

// ---------- Bool

func Not(a *Term) *Term {
	if a == TTrue {
		return TFalse
	}
	if a == TFalse {
		return TTrue
	}
	switch a.Op {
	case "not":
		return a.Args[0]
	case "<":
		return Le(a.Args[1], a.Args[0])
	case "<=":
		return Lt(a.Args[1], a.Args[0])
	}
	return mk("not", SBool, a)
}

func And(ts ...*Term) *Term {
	var out []*Term
	seen := map[int]bool{}
	for _, t := range ts {
		if t == TTrue {
			continue
		}
		if t == TFalse {
			return TFalse
		}
		var parts []*Term
		if t.Op == "and" {
			parts = t.Args
		} else {
			parts = []*Term{t}
		}
		for _, p := range parts {
			if seen[p.ID] {
				continue
			}
			seen[p.ID] = true
			out = append(out, p)
		}
	}
	for _, p := range out {
		if p.Op == "not" && seen[p.Args[0].ID] {
			return TFalse
		}
	}
	if len(out) == 0 {
		return TTrue
	}
	if len(out) == 1 {
		return out[0]
	}
	sort.Slice(out, func(i, j int) bool { return out[i].ID < out[j].ID })
	return mk("and", SBool, out...)
}

func Or(ts ...*Term) *Term {
	var out []*Term
	seen := map[int]bool{}
	for _, t := range ts {
		if t == TFalse {
			continue
		}
		if t == TTrue {
			return TTrue
		}
		var parts []*Term
		if t.Op == "or" {
			parts = t.Args
		} else {
			parts = []*Term{t}
		}
		for _, p := range parts {
			if seen[p.ID] {
				continue
			}
			seen[p.ID] = true
			out = append(out, p)
		}
	}
	for _, p := range out {
		if p.Op == "not" && seen[p.Args[0].ID] {
			return TTrue
		}
	}
	if len(out) == 0 {
		return TFalse
	}
	if len(out) == 1 {
		return out[0]
	}
	sort.Slice(out, func(i, j int) bool { return out[i].ID < out[j].ID })
	return mk("or", SBool, out...)
}

func Implies(a, b *Term) *Term { return Or(Not(a), b) }

func Eq(a, b *Term) *Term {
	if a == b {
		return TTrue
	}
	if a.Sort != b.Sort {
		panic(fmt.Sprintf("Eq sorts %v %v: %v %v", a.Sort, b.Sort, a, b))
	}
	if a.IsConst() && b.IsConst() {
		return TFalse // distinct interned constants
	}
	if a.Sort == SBool {
		if a == TTrue {
			return b
		}
		if b == TTrue {
			return a
		}
		if a == TFalse {
			return Not(b)
		}
		if b == TFalse {
			return Not(a)
		}
	}
	if a.Sort == SInt {
		// interval disjointness
		alo, ahi := Bounds(a)
		blo, bhi := Bounds(b)
		if alo != nil && bhi != nil && alo.Cmp(bhi) > 0 {
			return TFalse
		}
		if ahi != nil && blo != nil && ahi.Cmp(blo) < 0 {
			return TFalse
		}
		// (ite c k1 k2) = k
		if b.isI() && a.Op == "ite" {
			return Ite(a.Args[0], Eq(a.Args[1], b), Eq(a.Args[2], b))
		}
		if a.isI() && b.Op == "ite" {
			return Ite(b.Args[0], Eq(b.Args[1], a), Eq(b.Args[2], a))
		}
		// x + c1 = c2
		if b.isI() && a.Op == "+" && a.Args[1].isI() {
			return Eq(a.Args[0], MkInt(new(big.Int).Sub(b.IV, a.Args[1].IV)))
		}
	}
	if a.Sort == SStr {
		if r, ok := strEqSimplify(a, b); ok {
			return r
		}
	}
	if a.ID > b.ID {
		a, b = b, a
	}
	return mk("=", SBool, a, b)
}

func Lt(a, b *Term) *Term {
	if a == b {
		return TFalse
	}
	if a.isI() && b.isI() {
		return MkBool(a.IV.Cmp(b.IV) < 0)
	}
	if r := bitlenCmp("<", a, b); r != nil {
		return r
	}
	alo, ahi := Bounds(a)
	blo, bhi := Bounds(b)
	if ahi != nil && blo != nil && ahi.Cmp(blo) < 0 {
		return TTrue
	}
	if alo != nil && bhi != nil && alo.Cmp(bhi) >= 0 {
		return TFalse
	}
	if b.isI() && a.Op == "ite" && (a.Args[1].isI() || a.Args[2].isI()) {
		return Ite(a.Args[0], Lt(a.Args[1], b), Lt(a.Args[2], b))
	}
	if a.isI() && b.Op == "ite" && (b.Args[1].isI() || b.Args[2].isI()) {
		return Ite(b.Args[0], Lt(a, b.Args[1]), Lt(a, b.Args[2]))
	}
	if b.isI() && a.Op == "+" && a.Args[1].isI() {
		return Lt(a.Args[0], MkInt(new(big.Int).Sub(b.IV, a.Args[1].IV)))
	}
	if a.isI() && b.Op == "+" && b.Args[1].isI() {
		return Lt(MkInt(new(big.Int).Sub(a.IV, b.Args[1].IV)), b.Args[0])
	}
	return mk("<", SBool, a, b)
}

func Le(a, b *Term) *Term {
	if a == b {
		return TTrue
	}
	if a.isI() && b.isI() {
		return MkBool(a.IV.Cmp(b.IV) <= 0)
	}
	if r := bitlenCmp("<=", a, b); r != nil {
		return r
	}
	alo, ahi := Bounds(a)
	blo, bhi := Bounds(b)
	if ahi != nil && blo != nil && ahi.Cmp(blo) <= 0 {
		return TTrue
	}
	if alo != nil && bhi != nil && alo.Cmp(bhi) > 0 {
		return TFalse
	}
	if b.isI() && a.Op == "ite" && (a.Args[1].isI() || a.Args[2].isI()) {
		return Ite(a.Args[0], Le(a.Args[1], b), Le(a.Args[2], b))
	}
	if a.isI() && b.Op == "ite" && (b.Args[1].isI() || b.Args[2].isI()) {
		return Ite(b.Args[0], Le(a, b.Args[1]), Le(a, b.Args[2]))
	}
	if b.isI() && a.Op == "+" && a.Args[1].isI() {
		return Le(a.Args[0], MkInt(new(big.Int).Sub(b.IV, a.Args[1].IV)))
	}
	if a.isI() && b.Op == "+" && b.Args[1].isI() {
		return Le(MkInt(new(big.Int).Sub(a.IV, b.Args[1].IV)), b.Args[0])
	}
	return mk("<=", SBool, a, b)
}
func Gt(a, b *Term) *Term { return Lt(b, a) }
func Ge(a, b *Term) *Term { return Le(b, a) }

// bitlen(x) is only meaningful compared with a constant: bitlen(x) > k  <=>  |x| >= 2^k
func bitlenCmp(op string, a, b *Term) *Term {
	isBL := func(t *Term) bool { return t.Op == "uf" && t.SV == "bitlen" }
	if isBL(a) && b.isI() && b.IV.IsInt64() {
		k := b.IV.Int64()
		x := Abs(a.Args[0])
		if k < 0 {
			return TFalse
		}
		if op == "<" { // bitlen < k  <=> |x| < 2^(k-1)
			if k == 0 {
				return TFalse
			}
			return Lt(x, MkInt(pow2(uint(k-1))))
		}
		return Lt(x, MkInt(pow2(uint(k)))) // bitlen <= k
	}
	if isBL(b) && a.isI() && a.IV.IsInt64() {
		k := a.IV.Int64()
		x := Abs(b.Args[0])
		if k < 0 {
			return TTrue
		}
		if op == "<" { // k < bitlen <=> |x| >= 2^k
			return Le(MkInt(pow2(uint(k))), x)
		}
		if k == 0 {
			return TTrue
		}
		return Le(MkInt(pow2(uint(k-1))), x) // k <= bitlen
	}
	return nil
}

// MaxStrLen (assumption A-STRLEN): every string/byte slice is shorter than 2^31 bytes.
var MaxStrLen = big.NewInt(1<<31 - 1)

// ---------- interval analysis (sound, cheap)

var (
	boundsMu    sync.Mutex
	boundsCache = map[int][2]*big.Int{}
)

func Bounds(t *Term) (lo, hi *big.Int) {
	if t.Sort != SInt {
		return nil, nil
	}
	if t.isI() {
		return t.IV, t.IV
	}
	boundsMu.Lock()
	if b, ok := boundsCache[t.ID]; ok {
		boundsMu.Unlock()
		return b[0], b[1]
	}
	boundsMu.Unlock()
	lo, hi = bounds1(t)
	boundsMu.Lock()
	boundsCache[t.ID] = [2]*big.Int{lo, hi}
	boundsMu.Unlock()
	return
}

func bounds1(t *Term) (lo, hi *big.Int) {
	switch t.Op {
	case "var":
		termMu.Lock()
		lo, hi = varBoundLo[t.ID], varBoundHi[t.ID]
		termMu.Unlock()
		return
	case "+":
		alo, ahi := Bounds(t.Args[0])
		blo, bhi := Bounds(t.Args[1])
		if alo != nil && blo != nil {
			lo = new(big.Int).Add(alo, blo)
		}
		if ahi != nil && bhi != nil {
			hi = new(big.Int).Add(ahi, bhi)
		}
		return
	case "-":
		alo, ahi := Bounds(t.Args[0])
		blo, bhi := Bounds(t.Args[1])
		if alo != nil && bhi != nil {
			lo = new(big.Int).Sub(alo, bhi)
		}
		if ahi != nil && blo != nil {
			hi = new(big.Int).Sub(ahi, blo)
		}
		return
	case "neg":
		alo, ahi := Bounds(t.Args[0])
		if ahi != nil {
			lo = new(big.Int).Neg(ahi)
		}
		if alo != nil {
			hi = new(big.Int).Neg(alo)
		}
		return
	case "*":
		alo, ahi := Bounds(t.Args[0])
		blo, bhi := Bounds(t.Args[1])
		if alo != nil && ahi != nil && blo != nil && bhi != nil {
			c := []*big.Int{new(big.Int).Mul(alo, blo), new(big.Int).Mul(alo, bhi), new(big.Int).Mul(ahi, blo), new(big.Int).Mul(ahi, bhi)}
			lo, hi = c[0], c[0]
			for _, x := range c[1:] {
				if x.Cmp(lo) < 0 {
					lo = x
				}
				if x.Cmp(hi) > 0 {
					hi = x
				}
			}
			return
		}
		// non-negative * non-negative
		if alo != nil && blo != nil && alo.Sign() >= 0 && blo.Sign() >= 0 {
			return new(big.Int).Mul(alo, blo), nil
		}
		return
	case "div":
		alo, ahi := Bounds(t.Args[0])
		blo, _ := Bounds(t.Args[1])
		if blo != nil && blo.Sign() > 0 {
			if alo != nil && alo.Sign() >= 0 {
				lo = big.NewInt(0)
				if ahi != nil {
					hi = new(big.Int).Div(ahi, blo)
				}
				return
			}
			if alo != nil && ahi != nil {
				// |a div b| <= max|a|
				m := new(big.Int).Abs(alo)
				if ahi.CmpAbs(m) > 0 {
					m = new(big.Int).Abs(ahi)
				}
				return new(big.Int).Neg(new(big.Int).Add(m, big.NewInt(1))), m
			}
		}
		return
	case "mod":
		blo, bhi := Bounds(t.Args[1])
		lo = big.NewInt(0)
		if blo != nil && bhi != nil {
			m := new(big.Int).Abs(blo)
			if bhi.CmpAbs(m) > 0 {
				m = new(big.Int).Abs(bhi)
			}
			hi = new(big.Int).Sub(m, big.NewInt(1))
		}
		return
	case "ite":
		alo, ahi := Bounds(t.Args[1])
		blo, bhi := Bounds(t.Args[2])
		if alo != nil && blo != nil {
			lo = alo
			if blo.Cmp(lo) < 0 {
				lo = blo
			}
		}
		if ahi != nil && bhi != nil {
			hi = ahi
			if bhi.Cmp(hi) > 0 {
				hi = bhi
			}
		}
		return
	case "str.len":
		return big.NewInt(0), MaxStrLen
	case "str.indexof":
		return big.NewInt(-1), nil
	case "str.to_int":
		return big.NewInt(-1), nil
	case "str.to_code":
		return big.NewInt(-1), big.NewInt(0x2FFFF)
	}
	return nil, nil
}

// ---------- Strings

func Concat(ts ...*Term) *Term {
	var out []*Term
	for _, t := range ts {
		var parts []*Term
		if t.Op == "str.++" {
			parts = t.Args
		} else {
			parts = []*Term{t}
		}
		for _, p := range parts {
			if p.Op == "const" && p.SV == "" {
				continue
			}
			if n := len(out); n > 0 && out[n-1].Op == "const" && p.Op == "const" {
				out[n-1] = MkStr(out[n-1].SV + p.SV)
				continue
			}
			out = append(out, p)
		}
	}
	if len(out) == 0 {
		return MkStr("")
	}
	if len(out) == 1 {
		return out[0]
	}
	return mk("str.++", SStr, out...)
}

func Len(s *Term) *Term {
	if s.IsConst() {
		return MkI(int64(len(s.SV)))
	}
	if s.Op == "str.++" {
		r := MkI(0)
		for _, a := range s.Args {
			r = Add(r, Len(a))
		}
		return r
	}
	if s.Op == "uf" {
		if n, ok := ufFixedLen[s.SV]; ok {
			return MkI(int64(n))
		}
		if s.SV == "hex" {
			return Mul(Len(s.Args[0]), MkI(2))
		}
	}
	return mk("str.len", SInt, s)
}

// ufFixedLen: UFs whose result has a fixed length (hash outputs).
var ufFixedLen = map[string]int{}

func Substr(s, off, n *Term) *Term {
	if s.IsConst() && off.isI() && n.isI() && off.IV.IsInt64() && n.IV.IsInt64() {
		o, l := off.IV.Int64(), n.IV.Int64()
		if o < 0 || o >= int64(len(s.SV)) || l <= 0 {
			return MkStr("")
		}
		e := o + l
		if e > int64(len(s.SV)) {
			e = int64(len(s.SV))
		}
		return MkStr(s.SV[o:e])
	}
	if off.isIv(0) && n == Len(s) {
		return s
	}
	// substr(a ++ rest, 0, len(a)) = a
	if s.Op == "str.++" && off.isIv(0) && n == Len(s.Args[0]) {
		return s.Args[0]
	}
	// substr(a ++ b, 0, len(a ++ b) - len(b)) = a   (TrimSuffix shape)
	if s.Op == "str.++" && off.isIv(0) && len(s.Args) >= 2 {
		last := s.Args[len(s.Args)-1]
		if n == Sub(Len(s), Len(last)) {
			return Concat(s.Args[:len(s.Args)-1]...)
		}
	}
	// substr of a concat with constant offsets falling on a boundary
	if s.Op == "str.++" && off.isI() && n.isI() {
		// try to peel leading constant parts
		o := new(big.Int).Set(off.IV)
		args := s.Args
		for len(args) > 0 {
			l := Len(args[0])
			if !l.isI() {
				break
			}
			if o.Cmp(l.IV) >= 0 {
				o.Sub(o, l.IV)
				args = args[1:]
				continue
			}
			break
		}
		if len(args) < len(s.Args) {
			return Substr(Concat(args...), MkInt(o), n)
		}
		// prefix entirely within first constant-length part
		if l := Len(args[0]); l.isI() && new(big.Int).Add(o, n.IV).Cmp(l.IV) <= 0 && len(args) > 1 {
			return Substr(args[0], off, n)
		}
	}
	return mk("str.substr", SStr, s, off, n)
}

func StrAt(s, i *Term) *Term { return Substr(s, i, MkI(1)) }

func ToCode(s *Term) *Term {
	if s.IsConst() {
		if len(s.SV) == 1 {
			return MkI(int64(s.SV[0]))
		}
		return MkI(-1)
	}
	return mk("str.to_code", SInt, s)
}

func FromCode(i *Term) *Term {
	if i.isI() && i.IV.IsInt64() && i.IV.Int64() >= 0 && i.IV.Int64() < 256 {
		return MkStr(string([]byte{byte(i.IV.Int64())}))
	}
	return mk("str.from_code", SStr, i)
}

func Contains(s, sub *Term) *Term {
	if s.IsConst() && sub.IsConst() {
		return MkBool(strings.Contains(s.SV, sub.SV))
	}
	if sub.IsConst() && sub.SV == "" {
		return TTrue
	}
	if s == sub {
		return TTrue
	}
	if s.Op == "str.++" && sub.IsConst() && len(sub.SV) == 1 {
		var ps []*Term
		for _, a := range s.Args {
			ps = append(ps, Contains(a, sub))
		}
		return Or(ps...)
	}
	if s.Op == "uf" && sub.IsConst() && len(sub.SV) == 1 {
		if al, ok := ufAlphabet[s.SV]; ok && !strings.Contains(al, sub.SV) {
			return TFalse
		}
	}
	return mk("str.contains", SBool, s, sub)
}

// ufAlphabet: UFs whose result only contains characters from the given set.
var ufAlphabet = map[string]string{}

func PrefixOf(p, s *Term) *Term {
	if p.IsConst() && s.IsConst() {
		return MkBool(strings.HasPrefix(s.SV, p.SV))
	}
	if p.IsConst() && p.SV == "" || p == s {
		return TTrue
	}
	if s.Op == "str.++" && s.Args[0] == p {
		return TTrue
	}
	if s.Op == "str.++" && s.Args[0].IsConst() && p.IsConst() {
		c := s.Args[0].SV
		if len(c) >= len(p.SV) {
			return MkBool(strings.HasPrefix(c, p.SV))
		}
		if !strings.HasPrefix(p.SV, c) {
			return TFalse
		}
	}
	return mk("str.prefixof", SBool, p, s)
}

func SuffixOf(p, s *Term) *Term {
	if p.IsConst() && s.IsConst() {
		return MkBool(strings.HasSuffix(s.SV, p.SV))
	}
	if p.IsConst() && p.SV == "" || p == s {
		return TTrue
	}
	if s.Op == "str.++" {
		last := s.Args[len(s.Args)-1]
		if last == p {
			return TTrue
		}
		if last.IsConst() && p.IsConst() {
			c := last.SV
			if len(c) >= len(p.SV) {
				return MkBool(strings.HasSuffix(c, p.SV))
			}
			if !strings.HasSuffix(p.SV, c) {
				return TFalse
			}
		}
	}
	return mk("str.suffixof", SBool, p, s)
}

func IndexOf(s, sub, from *Term) *Term {
	if s.IsConst() && sub.IsConst() && from.isIv(0) {
		return MkI(int64(strings.Index(s.SV, sub.SV)))
	}
	return mk("str.indexof", SInt, s, sub, from)
}

func ReplaceAll(s, a, b *Term) *Term {
	if s.IsConst() && a.IsConst() && b.IsConst() {
		return MkStr(strings.ReplaceAll(s.SV, a.SV, b.SV))
	}
	return mk("str.replace_all", SStr, s, a, b)
}

func FromInt(i *Term) *Term { // SMT str.from_int: "" for negatives
	if i.isI() {
		if i.IV.Sign() < 0 {
			return MkStr("")
		}
		return MkStr(i.IV.String())
	}
	return mk("str.from_int", SStr, i)
}

func ToInt(s *Term) *Term {
	if s.IsConst() {
		if s.SV == "" {
			return MkI(-1)
		}
		for _, c := range s.SV {
			if c < '0' || c > '9' {
				return MkI(-1)
			}
		}
		v, _ := new(big.Int).SetString(s.SV, 10)
		return MkInt(v)
	}
	if s.Op == "str.from_int" {
		lo, _ := Bounds(s.Args[0])
		if lo != nil && lo.Sign() >= 0 {
			return s.Args[0]
		}
	}
	return mk("str.to_int", SInt, s)
}

// InRe: membership of s in the regular expression given as SMT-LIB text; goRe decides constants.
func InRe(s *Term, smtRe string, goRe func(string) bool) *Term {
	if s.IsConst() && goRe != nil {
		return MkBool(goRe(s.SV))
	}
	if goRe != nil {
		termMu.Lock()
		if _, ok := reMatchers[smtRe]; !ok {
			reMatchers[smtRe] = goRe
		}
		termMu.Unlock()
	}
	return intern(&Term{Op: "str.in_re", Sort: SBool, Args: []*Term{s}, SV: smtRe})
}

// StrLt is the abstract strict total order on strings (A-ORDER); constants compare natively.
func StrLt(a, b *Term) *Term {
	if a == b {
		return TFalse
	}
	if a.IsConst() && b.IsConst() {
		return MkBool(a.SV < b.SV)
	}
	return App("strlt", a, b)
}

// strEqSimplify decides some string equalities syntactically.
func strEqSimplify(a, b *Term) (*Term, bool) {
	// different known lengths
	la, lb := Len(a), Len(b)
	if la.isI() && lb.isI() && la.IV.Cmp(lb.IV) != 0 {
		return TFalse, true
	}
	alo, ahi := Bounds(la)
	blo, bhi := Bounds(lb)
	if alo != nil && bhi != nil && alo.Cmp(bhi) > 0 {
		return TFalse, true
	}
	if ahi != nil && blo != nil && ahi.Cmp(blo) < 0 {
		return TFalse, true
	}
	// strip equal leading parts of concats
	pa, pb := parts(a), parts(b)
	changed := false
	for len(pa) > 0 && len(pb) > 0 {
		x, y := pa[0], pb[0]
		if x == y {
			pa, pb = pa[1:], pb[1:]
			changed = true
			continue
		}
		if x.IsConst() && y.IsConst() {
			n := len(x.SV)
			if len(y.SV) < n {
				n = len(y.SV)
			}
			if x.SV[:n] != y.SV[:n] {
				return TFalse, true
			}
			pa = append([]*Term{MkStr(x.SV[n:])}, pa[1:]...)
			pb = append([]*Term{MkStr(y.SV[n:])}, pb[1:]...)
			if pa[0].SV == "" {
				pa = pa[1:]
			}
			if pb[0].SV == "" {
				pb = pb[1:]
			}
			changed = true
			continue
		}
		break
	}
	for len(pa) > 0 && len(pb) > 0 {
		x, y := pa[len(pa)-1], pb[len(pb)-1]
		if x == y {
			pa, pb = pa[:len(pa)-1], pb[:len(pb)-1]
			changed = true
			continue
		}
		if x.IsConst() && y.IsConst() {
			n := len(x.SV)
			if len(y.SV) < n {
				n = len(y.SV)
			}
			if x.SV[len(x.SV)-n:] != y.SV[len(y.SV)-n:] {
				return TFalse, true
			}
			nx, ny := MkStr(x.SV[:len(x.SV)-n]), MkStr(y.SV[:len(y.SV)-n])
			pa = append(append([]*Term{}, pa[:len(pa)-1]...), nx)
			pb = append(append([]*Term{}, pb[:len(pb)-1]...), ny)
			if nx.SV == "" {
				pa = pa[:len(pa)-1]
			}
			if ny.SV == "" {
				pb = pb[:len(pb)-1]
			}
			changed = true
			continue
		}
		break
	}
	if changed {
		return Eq(Concat(pa...), Concat(pb...)), true
	}
	return nil, false
}

func parts(t *Term) []*Term {
	if t.Op == "str.++" {
		return append([]*Term{}, t.Args...)
	}
	if t.IsConst() && t.SV == "" {
		return nil
	}
	return []*Term{t}
}

// ---------- printing

func smtStrLit(s string) string {
	var sb strings.Builder
	sb.WriteByte('"')
	for i := 0; i < len(s); i++ {
		c := s[i]
		switch {
		case c == '"':
			sb.WriteString(`""`)
		case c == '\\':
			sb.WriteString(`\u{5c}`)
		case c >= 0x20 && c < 0x7f:
			sb.WriteByte(c)
		default:
			fmt.Fprintf(&sb, `\u{%x}`, c)
		}
	}
	sb.WriteByte('"')
	return sb.String()
}

func smtInt(v *big.Int) string {
	if v.Sign() < 0 {
		return "(- " + new(big.Int).Neg(v).String() + ")"
	}
	return v.String()
}

func smtSym(name string) string { return "|" + name + "|" }

// smtExpr prints t; if named != nil, sub-terms present in named are printed by reference.
func smtExpr(t *Term, named map[int]bool) string {
	var sb strings.Builder
	var rec func(t *Term, top bool)
	rec = func(t *Term, top bool) {
		if !top && named != nil && named[t.ID] {
			fmt.Fprintf(&sb, "t%d", t.ID)
			return
		}
		switch t.Op {
		case "const":
			switch t.Sort {
			case SInt:
				sb.WriteString(smtInt(t.IV))
			case SBool:
				if t.BV {
					sb.WriteString("true")
				} else {
					sb.WriteString("false")
				}
			case SStr:
				sb.WriteString(smtStrLit(t.SV))
			}
		case "var":
			sb.WriteString(smtSym(t.SV))
		case "neg":
			sb.WriteString("(- ")
			rec(t.Args[0], false)
			sb.WriteByte(')')
		case "uf":
			if len(t.Args) == 0 {
				sb.WriteString(smtSym("uf_" + t.SV))
				return
			}
			sb.WriteString("(" + smtSym("uf_"+t.SV))
			for _, a := range t.Args {
				sb.WriteByte(' ')
				rec(a, false)
			}
			sb.WriteByte(')')
		case "str.in_re":
			sb.WriteString("(str.in_re ")
			rec(t.Args[0], false)
			sb.WriteString(" " + t.SV + ")")
		default:
			sb.WriteString("(" + t.Op)
			for _, a := range t.Args {
				sb.WriteByte(' ')
				rec(a, false)
			}
			sb.WriteByte(')')
		}
	}
	rec(t, true)
	return sb.String()
}

// Script renders a self-contained SMT-LIB script body (declarations, definitions, assertions)
// for the conjunction of asserts, including instantiated UF axioms. It also returns the
// variables and UF applications occurring (for model extraction).
func Script(asserts []*Term) (string, []*Term) {
	reach := map[int]*Term{}
	var order []*Term
	var visit func(t *Term)
	var axiomQ []*Term
	axDone := map[int]bool{}
	visit = func(t *Term) {
		if _, ok := reach[t.ID]; ok {
			return
		}
		reach[t.ID] = t
		for _, a := range t.Args {
			visit(a)
		}
		order = append(order, t)
		if t.Op == "uf" {
			axiomQ = append(axiomQ, t)
		}
	}
	all := append([]*Term{}, asserts...)
	for _, a := range asserts {
		visit(a)
	}
	for round := 0; round < 4 && len(axiomQ) > 0; round++ {
		q := axiomQ
		axiomQ = nil
		for _, app := range q {
			if axDone[app.ID] {
				continue
			}
			axDone[app.ID] = true
			termMu.Lock()
			gen := ufAxioms[app.SV]
			termMu.Unlock()
			if gen == nil {
				continue
			}
			for _, ax := range gen(app) {
				if ax == TTrue {
					continue
				}
				all = append(all, ax)
				visit(ax)
			}
		}
	}
	// pairwise axioms (total order on strlt operands)
	for _, ax := range orderAxioms(reach) {
		all = append(all, ax)
		visit(ax)
	}
	sort.Slice(order, func(i, j int) bool { return order[i].ID < order[j].ID })
	var sb strings.Builder
	var syms []*Term
	ufSeen := map[string]bool{}
	named := map[int]bool{}
	for _, t := range order {
		switch t.Op {
		case "var":
			fmt.Fprintf(&sb, "(declare-const %s %s)\n", smtSym(t.SV), t.Sort)
			syms = append(syms, t)
			if t.Sort == SInt {
				termMu.Lock()
				lo, hi := varBoundLo[t.ID], varBoundHi[t.ID]
				termMu.Unlock()
				if lo != nil {
					fmt.Fprintf(&sb, "(assert (<= %s %s))\n", smtInt(lo), smtSym(t.SV))
				}
				if hi != nil {
					fmt.Fprintf(&sb, "(assert (<= %s %s))\n", smtSym(t.SV), smtInt(hi))
				}
			}
		case "uf":
			if !ufSeen[t.SV] {
				ufSeen[t.SV] = true
				termMu.Lock()
				sig := ufSigs[t.SV]
				termMu.Unlock()
				var as []string
				for _, s := range sig.Args {
					as = append(as, s.String())
				}
				fmt.Fprintf(&sb, "(declare-fun %s (%s) %s)\n", smtSym("uf_"+t.SV), strings.Join(as, " "), sig.Ret)
			}
		}
	}
	for _, t := range order {
		if t.Op == "const" || t.Op == "var" {
			continue
		}
		fmt.Fprintf(&sb, "(define-fun t%d () %s %s)\n", t.ID, t.Sort, smtExpr(t, named))
		named[t.ID] = true
		if t.Op == "str.len" {
			fmt.Fprintf(&sb, "(assert (<= t%d %s))\n", t.ID, MaxStrLen.String())
		}
		if t.Op == "str.from_int" {
			// lemmas (true of every decimal rendering) that spare the solvers a digit-level argument
			for _, c := range []string{"/", ".", ",", "-"} {
				fmt.Fprintf(&sb, "(assert (not (str.contains t%d %s)))\n", t.ID, smtStrLit(c))
			}
		}
		if t.Op == "uf" {
			// facts the simplifier already uses must also be known to the solver
			if n, ok := ufFixedLen[t.SV]; ok {
				fmt.Fprintf(&sb, "(assert (= (str.len t%d) %d))\n", t.ID, n)
			}
			if t.SV == "hex" {
				fmt.Fprintf(&sb, "(assert (= (str.len t%d) (* 2 (str.len %s))))\n", t.ID, smtExprRef(t.Args[0], named))
			}
			if al, ok := ufAlphabet[t.SV]; ok {
				for _, c := range []string{"/", ".", ",", " ", "-"} {
					if !strings.Contains(al, c) {
						fmt.Fprintf(&sb, "(assert (not (str.contains t%d %s)))\n", t.ID, smtStrLit(c))
					}
				}
			}
		}
		if t.Op == "uf" {
			syms = append(syms, t)
		}
	}
	for _, a := range all {
		if a == TTrue {
			continue
		}
		fmt.Fprintf(&sb, "(assert %s)\n", smtExprRef(a, named))
	}
	return sb.String(), syms
}

func smtExprRef(t *Term, named map[int]bool) string {
	if named[t.ID] {
		return fmt.Sprintf("t%d", t.ID)
	}
	return smtExpr(t, named)
}

// orderAxioms instantiates irreflexivity/totality/transitivity of strlt over the operands seen.
func orderAxioms(reach map[int]*Term) []*Term {
	opsSet := map[int]*Term{}
	for _, t := range reach {
		if t.Op == "uf" && t.SV == "strlt" {
			opsSet[t.Args[0].ID] = t.Args[0]
			opsSet[t.Args[1].ID] = t.Args[1]
		}
	}
	if len(opsSet) == 0 {
		return nil
	}
	var ops []*Term
	for _, t := range opsSet {
		ops = append(ops, t)
	}
	sort.Slice(ops, func(i, j int) bool { return ops[i].ID < ops[j].ID })
	if len(ops) > 12 {
		ops = ops[:12]
	}
	var out []*Term
	for i, a := range ops {
		for j, b := range ops {
			if i >= j {
				continue
			}
			ab, ba := StrLt(a, b), StrLt(b, a)
			// totality + asymmetry: exactly one of a<b, b<a, a=b
			out = append(out, Or(ab, ba, Eq(a, b)))
			out = append(out, Not(And(ab, ba)))
			out = append(out, Implies(Eq(a, b), And(Not(ab), Not(ba))))
		}
	}
	for i, a := range ops {
		for j, b := range ops {
			for k, c := range ops {
				if i == j || j == k || i == k {
					continue
				}
				out = append(out, Implies(And(StrLt(a, b), StrLt(b, c)), StrLt(a, c)))
			}
		}
	}
	return out
}

// ---------- cone-of-influence slicing

var (
	symMu    sync.Mutex
	symCache = map[int][]int{} // term id -> sorted ids of the variables / UF heads it mentions
	ufIDs    = map[string]int{}
)

func ufSymID(name string) int {
	id, ok := ufIDs[name]
	if !ok {
		id = -(len(ufIDs) + 1)
		ufIDs[name] = id
	}
	return id
}

// Symbols returns the variables (term ids) and UF heads (negative ids) of t.
func Symbols(t *Term) []int {
	symMu.Lock()
	defer symMu.Unlock()
	return symbolsLocked(t)
}

func symbolsLocked(t *Term) []int {
	if s, ok := symCache[t.ID]; ok {
		return s
	}
	set := map[int]bool{}
	switch t.Op {
	case "var":
		set[t.ID] = true
	case "uf":
		// the abstract string order and bit-length couple nothing by themselves
		if t.SV != "strlt" && t.SV != "bitlen" {
			set[ufSymID(t.SV)] = true
		}
	}
	for _, a := range t.Args {
		for _, x := range symbolsLocked(a) {
			set[x] = true
		}
	}
	out := make([]int, 0, len(set))
	for x := range set {
		out = append(out, x)
	}
	sort.Ints(out)
	symCache[t.ID] = out
	return out
}

// Slice keeps the assertions that share symbols (transitively) with goal.
func Slice(asserts []*Term, goal *Term) []*Term { return sliceBy(asserts, goal, false) }

// SliceVars is the finer cut: assertions are connected through shared variables only (uninterpreted
// function heads do not connect them). Its unsat answers are sound (a subset of the constraints);
// its sat answers must be validated against the whole constraint set.
func SliceVars(asserts []*Term, goal *Term) []*Term { return sliceBy(asserts, goal, true) }

func sliceBy(asserts []*Term, goal *Term, varsOnly bool) []*Term {
	want := map[int]bool{}
	for _, x := range Symbols(goal) {
		if varsOnly && x < 0 {
			continue
		}
		want[x] = true
	}
	used := make([]bool, len(asserts))
	syms := make([][]int, len(asserts))
	for i, a := range asserts {
		syms[i] = Symbols(a)
	}
	changed := true
	for changed {
		changed = false
		for i := range asserts {
			if used[i] {
				continue
			}
			hit := false
			for _, x := range syms[i] {
				if want[x] {
					hit = true
					break
				}
			}
			if hit {
				used[i] = true
				changed = true
				for _, x := range syms[i] {
					if varsOnly && x < 0 {
						continue
					}
					want[x] = true
				}
			}
		}
	}
	var out []*Term
	for i, a := range asserts {
		if used[i] {
			out = append(out, a)
		}
	}
	return out
}
