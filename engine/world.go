package gosym

import "go/types"

// World is the environment model state carried by each path: KV stores, bank tables, events,
// the log of nondeterministic inputs, decoded lazy blobs.

type logNode struct {
	key  *Term
	val  Value // *BytesV; nil => deleted
	next *logNode
	n    int
}

type baseRead struct {
	key     *Term
	present *Term
	val     *BytesV
	next    *baseRead
}

type SymMap struct {
	Name   string
	Open   bool
	Log    *logNode
	Reads  *baseRead
	Closed []*Term // key prefixes under which the (otherwise open) base is assumed empty
}

type tblNode struct {
	k1, k2 *Term
	v      *Term
	next   *tblNode
}

type NondetEntry struct {
	Tag  string
	T    *Term
	Kind string // "int","str","bytes","bool","len","addr"
}

type Event struct{ Desc string }

type writeRec struct {
	store string
	key   *Term
	val   *BytesV // nil: delete
}

type CtxData struct {
	Height, Time, Gas *Term
	GasNil            bool
}

type World struct {
	Stores   map[string]*SymMap
	Tables   map[string]*tblNode // bank balances etc: (k1,k2)->Int over UF base
	Nondet   []NondetEntry
	Events   int
	EventLog []*Term
	LazyVals map[int]lazyVal // decoded content of lazy blobs
	LazyNext int
	Params   map[string]Value // per subspace param set value (struct)
	Ghost    map[string]Value
	Writes   int
	WriteLog []writeRec // ordered store write log: keys and values (determinism checks)
	SliceBound int
	RandChoice bool
	OpenStores map[string]bool
	Evals      []NondetEntry // extra terms whose model value the scenario needs (table bases, predicates)
}

type lazyVal struct {
	typ types.Type
	val Value
}

func newWorld() *World {
	return &World{Stores: map[string]*SymMap{}, Tables: map[string]*tblNode{}, LazyVals: map[int]lazyVal{},
		Params: map[string]Value{}, Ghost: map[string]Value{}, SliceBound: 2, OpenStores: map[string]bool{}}
}

func (w *World) clone() *World {
	n := *w
	n.Stores = make(map[string]*SymMap, len(w.Stores))
	for k, v := range w.Stores {
		c := *v
		n.Stores[k] = &c
	}
	n.Tables = make(map[string]*tblNode, len(w.Tables))
	for k, v := range w.Tables {
		n.Tables[k] = v
	}
	n.Nondet = append([]NondetEntry(nil), w.Nondet...)
	n.LazyVals = make(map[int]lazyVal, len(w.LazyVals))
	for k, v := range w.LazyVals {
		n.LazyVals[k] = v
	}
	n.Params = make(map[string]Value, len(w.Params))
	for k, v := range w.Params {
		n.Params[k] = v
	}
	n.Ghost = make(map[string]Value, len(w.Ghost))
	for k, v := range w.Ghost {
		n.Ghost[k] = v
	}
	n.EventLog = append([]*Term(nil), w.EventLog...)
	n.WriteLog = append([]writeRec(nil), w.WriteLog...)
	n.Evals = append([]NondetEntry(nil), w.Evals...)
	n.OpenStores = make(map[string]bool, len(w.OpenStores))
	for k, v := range w.OpenStores {
		n.OpenStores[k] = v
	}
	return &n
}

func (w *World) store(name string) *SymMap {
	s, ok := w.Stores[name]
	if !ok {
		s = &SymMap{Name: name, Open: w.OpenStores[name]}
		w.Stores[name] = s
	}
	return s
}

// getOutcome is one case of a symbolic map read.
type getOutcome struct {
	cond *Term
	val  *BytesV // nil => absent
	mat  bool    // needs materialisation of a fresh base entry (open map)
}

// get enumerates the cases of reading key k. Conditions are mutually exclusive and exhaustive.
func (m *SymMap) get(k *Term) []getOutcome {
	var out []getOutcome
	miss := TTrue
	for n := m.Log; n != nil; n = n.next {
		eq := Eq(k, n.key)
		if eq == TFalse {
			continue
		}
		c := And(miss, eq)
		if c != TFalse {
			var bv *BytesV
			if n.val != nil {
				bv = n.val.(*BytesV)
			}
			out = append(out, getOutcome{cond: c, val: bv})
		}
		if eq == TTrue {
			return out
		}
		miss = And(miss, Not(eq))
	}
	if !m.Open {
		out = append(out, getOutcome{cond: miss, val: nil})
		return out
	}
	for r := m.Reads; r != nil; r = r.next {
		eq := Eq(k, r.key)
		if eq == TFalse {
			continue
		}
		c := And(miss, eq)
		if c != TFalse {
			out = append(out, getOutcome{cond: And(c, r.present), val: r.val})
			out = append(out, getOutcome{cond: And(c, Not(r.present)), val: nil})
		}
		if eq == TTrue {
			return out
		}
		miss = And(miss, Not(eq))
	}
	if len(m.Closed) > 0 {
		var cs []*Term
		for _, p := range m.Closed {
			cs = append(cs, PrefixOf(p, k))
		}
		closed := Or(cs...)
		if closed != TFalse {
			out = append(out, getOutcome{cond: And(miss, closed), val: nil})
		}
		miss = And(miss, Not(closed))
		if miss == TFalse {
			return out
		}
	}
	out = append(out, getOutcome{cond: miss, mat: true})
	return out
}

func (m *SymMap) set(k *Term, v Value) {
	n := 1
	if m.Log != nil {
		n = m.Log.n + 1
	}
	m.Log = &logNode{key: k, val: v, next: m.Log, n: n}
}

// table read: ite-chain over the write log ending in the UF base.
func (w *World) tblGet(tbl string, k1, k2 *Term) *Term {
	base := App("tbl0_"+tbl, k1, k2)
	var nodes []*tblNode
	for n := w.Tables[tbl]; n != nil; n = n.next {
		nodes = append(nodes, n)
	}
	r := base
	for i := len(nodes) - 1; i >= 0; i-- {
		n := nodes[i]
		r = Ite(And(Eq(k1, n.k1), Eq(k2, n.k2)), n.v, r)
	}
	return r
}

func (w *World) tblSet(tbl string, k1, k2, v *Term) {
	w.Tables[tbl] = &tblNode{k1, k2, v, w.Tables[tbl]}
}
