package gosym

// Determinism checking (C06): a harness runs the same step twice from the same state
// (zzverif.Snapshot / Restore) and compares the ordered effects of the two runs (zzverif.EffectsSince,
// zzverif.SameEffects): store writes (keys and values, in order), bank table writes (in order), emitted
// event types (in order). With map-order exploration switched on, every `range` over a Go map forks into
// the iteration orders independently in the two runs, and every environment read (time.Now, unseeded
// randomness) is a fresh symbol per call, so a result that depends on either cannot be proved equal.

type effects struct {
	writes []writeRec
	tables map[string][]*tblNode // table writes since the snapshot, oldest first
	events []*Term
}

// deepEqT: equality of two frozen values as a term (TFalse where the shapes differ).
func deepEqT(a, b Value) *Term {
	switch x := a.(type) {
	case nil:
		return MkBool(b == nil)
	case *Term:
		y, ok := b.(*Term)
		if !ok || x.Sort != y.Sort {
			return TFalse
		}
		return Eq(x, y)
	case *StructV:
		y, ok := b.(*StructV)
		if !ok || len(x.F) != len(y.F) {
			return TFalse
		}
		r := TTrue
		for i := range x.F {
			r = And(r, deepEqT(x.F[i], y.F[i]))
		}
		return r
	case *ArrayV:
		y, ok := b.(*ArrayV)
		if !ok || len(x.E) != len(y.E) {
			return TFalse
		}
		r := TTrue
		for i := range x.E {
			r = And(r, deepEqT(x.E[i], y.E[i]))
		}
		return r
	case *BytesV:
		y, ok := b.(*BytesV)
		if !ok {
			return TFalse
		}
		if x.Blob != nil || y.Blob != nil {
			if x.Blob == nil || y.Blob == nil {
				return Eq(x.T, y.T)
			}
			if x.Blob == y.Blob {
				return TTrue
			}
			if x.Blob.Val != nil && y.Blob.Val != nil {
				return deepEqT(x.Blob.Val, y.Blob.Val)
			}
			return MkBool(x.Blob.Lazy != 0 && x.Blob.Lazy == y.Blob.Lazy)
		}
		return Eq(x.T, y.T)
	case *FrozenSlice:
		y, ok := b.(*FrozenSlice)
		if !ok || len(x.E) != len(y.E) {
			return TFalse
		}
		r := TTrue
		for i := range x.E {
			r = And(r, deepEqT(x.E[i], y.E[i]))
		}
		return r
	case *FrozenPtr:
		y, ok := b.(*FrozenPtr)
		if !ok || x.Nil != y.Nil {
			return TFalse
		}
		if x.Nil {
			return TTrue
		}
		return deepEqT(x.V, y.V)
	case *BigV:
		y, ok := b.(*BigV)
		if !ok {
			return TFalse
		}
		return Eq(x.T, y.T)
	case *TimeV:
		y, ok := b.(*TimeV)
		if !ok {
			return TFalse
		}
		return Eq(x.NS, y.NS)
	case *IfaceV:
		y, ok := b.(*IfaceV)
		if !ok || (x.T == nil) != (y.T == nil) {
			return TFalse
		}
		if x.T == nil {
			return TTrue
		}
		return deepEqT(x.V, y.V)
	}
	return MkBool(a == b)
}

func sameEffects(a, b *effects) *Term {
	if len(a.writes) != len(b.writes) || len(a.events) != len(b.events) {
		return TFalse
	}
	r := TTrue
	for i := range a.writes {
		x, y := a.writes[i], b.writes[i]
		if x.store != y.store || (x.val == nil) != (y.val == nil) {
			return TFalse
		}
		r = And(r, Eq(x.key, y.key))
		if x.val != nil {
			r = And(r, deepEqT(x.val, y.val))
		}
	}
	for i := range a.events {
		r = And(r, Eq(a.events[i], b.events[i]))
	}
	if len(a.tables) != len(b.tables) {
		return TFalse
	}
	for n, xs := range a.tables {
		ys, ok := b.tables[n]
		if !ok || len(xs) != len(ys) {
			return TFalse
		}
		for i := range xs {
			r = And(r, Eq(xs[i].k1, ys[i].k1), Eq(xs[i].k2, ys[i].k2), Eq(xs[i].v, ys[i].v))
		}
	}
	return r
}

func init() {
	reg := RegisterIntrinsic
	reg(zz+"Snapshot", func(c *CallCtx, a []Value) []Outcome {
		return ret1(&OpaqueV{Kind: "worldsnap", Data: c.S.W.clone()})
	})
	reg(zz+"Restore", func(c *CallCtx, a []Value) []Outcome {
		restoreWorld(c.S, a[0].(*OpaqueV).Data.(*World))
		return retNone()
	})
	reg(zz+"EffectsSince", func(c *CallCtx, a []Value) []Outcome {
		base := a[0].(*OpaqueV).Data.(*World)
		ef := &effects{tables: map[string][]*tblNode{}}
		ef.writes = append(ef.writes, c.S.W.WriteLog[len(base.WriteLog):]...)
		ef.events = append(ef.events, c.S.W.EventLog[len(base.EventLog):]...)
		for n, head := range c.S.W.Tables {
			var since []*tblNode
			for x := head; x != nil && x != base.Tables[n]; x = x.next {
				since = append([]*tblNode{x}, since...)
			}
			if len(since) > 0 {
				ef.tables[n] = since
			}
		}
		return ret1(&OpaqueV{Kind: "effects", Data: ef})
	})
	reg(zz+"SameEffects", func(c *CallCtx, a []Value) []Outcome {
		return ret1(sameEffects(a[0].(*OpaqueV).Data.(*effects), a[1].(*OpaqueV).Data.(*effects)))
	})
}
