package gosym

import (
	"sort"
	"fmt"
	"go/types"
	"math/big"
	"strings"

	"golang.org/x/tools/go/ssa"
)

// Value is one of:
//   *Term                      scalar int / bool / string
//   *Ptr                       pointer (nil pointer: Ptr.Nil)
//   *StructV, *ArrayV          aggregates (immutable trees)
//   *SliceV                    slice header over a heap array object
//   *BytesV                    []byte as a String term (value semantics)
//   *MapRef                    reference to a heap MapObj
//   *IfaceV                    interface value
//   *FuncV                     function / closure / bound method
//   *TupleV                    multiple results
//   *BigV                      contents of a math/big.Int cell
//   *TimeV                     time.Time
//   *OpaqueV                   model objects and never-interpreted things
//   *FloatV                    concrete float64
//   *PoisonV                   result of a failed package initialiser
type Value interface{}

type Ptr struct {
	Nil  bool
	Obj  int
	Path []int
}

type StructV struct{ F []Value }
type ArrayV struct{ E []Value }
type SliceV struct {
	Nil           bool
	Arr           int // heap object holding *ArrayV
	Off, Len, Cap int
}
type BytesV struct {
	T    *Term // String sort
	NilT *Term // Bool: is the slice nil (nil => TFalse)
	Blob *Blob // typed content when produced by the codec model / store
}
type MapRef struct {
	Nil bool
	Obj int
}
type MapEntry struct {
	K       Value // *Term (Int/Str) or other comparable concrete
	V       Value
	Present *Term // nil: present; otherwise the entry exists iff Present (open maps, deleted entries)
}
type MapObj struct {
	E    []MapEntry // pairwise distinct keys under the path condition
	Open bool       // arbitrary unknown content beyond E (entries are materialised on demand)
	Tag  string
	Src  *Term // the text this map was decoded from: its unknown content is a function of (Src, key)
}
type IfaceV struct {
	T types.Type // nil => nil interface
	V Value
}
type FuncV struct {
	Fn    *ssa.Function
	Bind  []Value
	Recv  Value  // bound method receiver (for method values)
	Intr  string // intrinsic name if not SSA
}
type TupleV struct{ E []Value }
type BigV struct{ T *Term }
type TimeV struct{ NS *Term } // nanoseconds since Unix epoch, UTC
type OpaqueV struct {
	Kind string
	Data interface{}
}
type FloatV struct {
	F       float64
	Unknown bool // converted from a symbolic integer: may only flow into logging/telemetry
}
type PoisonV struct{ Why string }

// Blob is the typed content of a marshalled record.
type Blob struct {
	Typ  types.Type // nil: lazy (open-world) content not yet decoded
	Val  Value      // frozen value tree (pointers replaced by FrozenPtr)
	Lazy int        // id of lazy blob (open store), 0 if none
	JSON bool       // produced by json.Marshal
}

// FrozenPtr replaces pointers inside blobs: the pointee's frozen content.
type FrozenPtr struct {
	Nil bool
	V   Value
}

var NilPtr = &Ptr{Nil: true}

func (p *Ptr) String() string {
	if p.Nil {
		return "nil"
	}
	return fmt.Sprintf("&o%d%v", p.Obj, p.Path)
}

func (p *Ptr) Sub(i int) *Ptr {
	np := make([]int, len(p.Path)+1)
	copy(np, p.Path)
	np[len(p.Path)] = i
	return &Ptr{Obj: p.Obj, Path: np}
}

func samePtr(a, b *Ptr) bool {
	if a.Nil || b.Nil {
		return a.Nil && b.Nil
	}
	if a.Obj != b.Obj || len(a.Path) != len(b.Path) {
		return false
	}
	for i := range a.Path {
		if a.Path[i] != b.Path[i] {
			return false
		}
	}
	return true
}

func isNamed(t types.Type, pkg, name string) bool {
	n, ok := t.(*types.Named)
	if !ok {
		return false
	}
	o := n.Obj()
	return o.Name() == name && o.Pkg() != nil && o.Pkg().Path() == pkg
}

func isByteSlice(t types.Type) bool {
	s, ok := t.Underlying().(*types.Slice)
	if !ok {
		return false
	}
	b, ok := s.Elem().Underlying().(*types.Basic)
	return ok && (b.Kind() == types.Byte || b.Kind() == types.Uint8)
}

func isByteArray(t types.Type) bool {
	s, ok := t.Underlying().(*types.Array)
	if !ok {
		return false
	}
	b, ok := s.Elem().Underlying().(*types.Basic)
	return ok && (b.Kind() == types.Byte || b.Kind() == types.Uint8)
}

// zeroValue builds the zero value of a Go type.
func zeroValue(t types.Type) Value {
	if isNamed(t, "math/big", "Int") {
		return &BigV{MkI(0)}
	}
	if isNamed(t, "time", "Time") {
		return &TimeV{zeroTime()}
	}
	if isNamed(t, "github.com/cosmos/cosmos-sdk/types", "Context") {
		return &OpaqueV{Kind: "ctx", Data: &CtxData{Height: MkI(0), Time: zeroTime(), Gas: MkI(0)}}
	}
	switch u := t.Underlying().(type) {
	case *types.Basic:
		switch {
		case u.Info()&types.IsBoolean != 0:
			return TFalse
		case u.Info()&types.IsInteger != 0:
			return MkI(0)
		case u.Info()&types.IsString != 0:
			return MkStr("")
		case u.Info()&types.IsFloat != 0:
			return &FloatV{F: 0}
		case u.Kind() == types.UnsafePointer:
			return NilPtr
		case u.Kind() == types.UntypedNil:
			return NilPtr
		}
		return &PoisonV{"zero of " + t.String()}
	case *types.Pointer:
		return NilPtr
	case *types.Struct:
		f := make([]Value, u.NumFields())
		for i := range f {
			f[i] = zeroValue(u.Field(i).Type())
		}
		return &StructV{f}
	case *types.Array:
		if isByteArray(t) {
			return &BytesV{T: MkStr(strings.Repeat("\x00", int(u.Len()))), NilT: TFalse}
		}
		e := make([]Value, u.Len())
		for i := range e {
			e[i] = zeroValue(u.Elem())
		}
		return &ArrayV{e}
	case *types.Slice:
		if isByteSlice(t) {
			return &BytesV{T: MkStr(""), NilT: TTrue}
		}
		return &SliceV{Nil: true}
	case *types.Map:
		return &MapRef{Nil: true}
	case *types.Interface:
		return &IfaceV{}
	case *types.Signature:
		return &FuncV{}
	case *types.Chan:
		return NilPtr
	case *types.Tuple:
		e := make([]Value, u.Len())
		for i := range e {
			e[i] = zeroValue(u.At(i).Type())
		}
		return &TupleV{e}
	}
	return &PoisonV{"zero of " + t.String()}
}

var zeroTimeBig = new(big.Int).Mul(big.NewInt(-62135596800), big.NewInt(1_000_000_000))

func zeroTime() *Term { return MkInt(zeroTimeBig) }

func intKind(t types.Type) (bits int, signed bool, ok bool) {
	b, isB := t.Underlying().(*types.Basic)
	if !isB || b.Info()&types.IsInteger == 0 {
		return 0, false, false
	}
	switch b.Kind() {
	case types.Int8:
		return 8, true, true
	case types.Int16:
		return 16, true, true
	case types.Int32:
		return 32, true, true
	case types.Int64, types.Int:
		return 64, true, true
	case types.Uint8:
		return 8, false, true
	case types.Uint16:
		return 16, false, true
	case types.Uint32:
		return 32, false, true
	case types.Uint64, types.Uint, types.Uintptr:
		return 64, false, true
	case types.UntypedInt, types.UntypedRune:
		return 64, true, true
	}
	return 0, false, false
}

func intRange(bits int, signed bool) (lo, hi *big.Int) {
	if signed {
		hi = new(big.Int).Sub(pow2(uint(bits-1)), big.NewInt(1))
		lo = new(big.Int).Neg(pow2(uint(bits - 1)))
		return
	}
	return big.NewInt(0), new(big.Int).Sub(pow2(uint(bits)), big.NewInt(1))
}

func showValue(v Value) string {
	switch x := v.(type) {
	case nil:
		return "<nil>"
	case *Term:
		return x.String()
	case *Ptr:
		return x.String()
	case *StructV:
		var ps []string
		for _, f := range x.F {
			ps = append(ps, showValue(f))
		}
		return "{" + strings.Join(ps, ", ") + "}"
	case *ArrayV:
		var ps []string
		for _, f := range x.E {
			ps = append(ps, showValue(f))
		}
		return "[" + strings.Join(ps, ", ") + "]"
	case *SliceV:
		if x.Nil {
			return "slice(nil)"
		}
		return fmt.Sprintf("slice(o%d,%d,%d,%d)", x.Arr, x.Off, x.Len, x.Cap)
	case *BytesV:
		return "bytes(" + x.T.String() + ")"
	case *IfaceV:
		if x.T == nil {
			return "iface(nil)"
		}
		return "iface(" + x.T.String() + ":" + showValue(x.V) + ")"
	case *BigV:
		return "big(" + x.T.String() + ")"
	case *TimeV:
		return "time(" + x.NS.String() + ")"
	case *OpaqueV:
		return "opaque(" + x.Kind + ")"
	case *TupleV:
		var ps []string
		for _, f := range x.E {
			ps = append(ps, showValue(f))
		}
		return "(" + strings.Join(ps, ", ") + ")"
	case *FuncV:
		if x.Fn != nil {
			return "func(" + x.Fn.String() + ")"
		}
		return "func(" + x.Intr + ")"
	case *PoisonV:
		return "poison(" + x.Why + ")"
	case *MapRef:
		return fmt.Sprintf("map(o%d)", x.Obj)
	case *FloatV:
		return fmt.Sprint(x.F)
	case *FrozenSlice:
		if x.Nil {
			return "fslice(nil)"
		}
		var ps []string
		for _, f := range x.E {
			ps = append(ps, showValue(f))
		}
		return "fslice[" + strings.Join(ps, ", ") + "]"
	case *FrozenPtr:
		if x.Nil {
			return "fptr(nil)"
		}
		return "fptr(" + showValue(x.V) + ")"
	case *FrozenMap:
		if x.Nil {
			return "fmap(nil)"
		}
		// canonical: entries sorted by their key's printed form (content, not insertion order)
		var ps []string
		for _, en := range x.E {
			p := showValue(en.K) + "=>" + showValue(en.V)
			if en.Present != nil {
				p += "?" + en.Present.String()
			}
			ps = append(ps, p)
		}
		sort.Strings(ps)
		src := ""
		if x.Src != nil {
			src = x.Src.String()
		}
		return fmt.Sprintf("fmap{%s|open=%v|%s}", strings.Join(ps, ", "), x.Open, src)
	}
	return fmt.Sprintf("%T@%p", v, v)
}
