package gosym

import (
	"fmt"
	"go/types"
)

// Frozen forms of reference values inside blobs.
type FrozenSlice struct {
	Nil bool
	E   []Value
}
type FrozenMap struct {
	Nil  bool
	E    []MapEntry
	Open bool
	Tag  string
	Src  *Term
}

// freeze deep-copies v replacing heap references by their content.
func (e *Engine) freeze(s *State, v Value, t types.Type) Value {
	switch x := v.(type) {
	case *Ptr:
		if x.Nil {
			return &FrozenPtr{Nil: true}
		}
		return &FrozenPtr{V: e.freeze(s, s.load(x), nil)}
	case *StructV:
		nf := make([]Value, len(x.F))
		for i := range x.F {
			nf[i] = e.freeze(s, x.F[i], nil)
		}
		return &StructV{nf}
	case *ArrayV:
		nf := make([]Value, len(x.E))
		for i := range x.E {
			nf[i] = e.freeze(s, x.E[i], nil)
		}
		return &ArrayV{nf}
	case *SliceV:
		if x.Nil {
			return &FrozenSlice{Nil: true}
		}
		fs := &FrozenSlice{}
		for i := 0; i < x.Len; i++ {
			fs.E = append(fs.E, e.freeze(s, s.load(&Ptr{Obj: x.Arr, Path: []int{x.Off + i}}), nil))
		}
		return fs
	case *MapRef:
		if x.Nil {
			return &FrozenMap{Nil: true}
		}
		mo := s.load(&Ptr{Obj: x.Obj}).(*MapObj)
		fm := &FrozenMap{Open: mo.Open, Tag: mo.Tag, Src: mo.Src}
		for _, en := range mo.E {
			fm.E = append(fm.E, MapEntry{en.K, e.freeze(s, en.V, nil), en.Present})
		}
		return fm
	case *IfaceV:
		if x.T == nil {
			return x
		}
		return &IfaceV{T: x.T, V: e.freeze(s, x.V, nil)}
	}
	return v
}

// thaw rebuilds a live value from a frozen one, allocating fresh heap cells.
func (e *Engine) thaw(s *State, v Value) Value {
	switch x := v.(type) {
	case *FrozenPtr:
		if x.Nil {
			return NilPtr
		}
		return &Ptr{Obj: s.alloc(e.thaw(s, x.V))}
	case *FrozenSlice:
		if x.Nil {
			return &SliceV{Nil: true}
		}
		el := make([]Value, len(x.E))
		for i := range x.E {
			el[i] = e.thaw(s, x.E[i])
		}
		id := s.alloc(&ArrayV{el})
		return &SliceV{Arr: id, Len: len(el), Cap: len(el)}
	case *FrozenMap:
		if x.Nil {
			return &MapRef{Nil: true}
		}
		mo := &MapObj{Open: x.Open, Tag: x.Tag, Src: x.Src}
		for _, en := range x.E {
			mo.E = append(mo.E, MapEntry{en.K, e.thaw(s, en.V), en.Present})
		}
		return &MapRef{Obj: s.alloc(mo)}
	case *StructV:
		nf := make([]Value, len(x.F))
		for i := range x.F {
			nf[i] = e.thaw(s, x.F[i])
		}
		return &StructV{nf}
	case *ArrayV:
		nf := make([]Value, len(x.E))
		for i := range x.E {
			nf[i] = e.thaw(s, x.E[i])
		}
		return &ArrayV{nf}
	case *IfaceV:
		if x.T == nil {
			return x
		}
		return &IfaceV{T: x.T, V: e.thaw(s, x.V)}
	}
	return v
}

type shape struct {
	cond *Term
	val  Value // frozen
}

// freshOfType enumerates the shapes (slice lengths) of an arbitrary value of type t, as frozen values.
func (e *Engine) freshOfType(s *State, t types.Type, tag string, depth int) []shape {
	return e.freshOfTypeR(s, t, tag, nil)
}

// RecBound: nesting depth of self-referential record types (e.g. Names.Subdomains) in arbitrary records.
var RecBound = 1

func (e *Engine) freshOfTypeR(s *State, t types.Type, tag string, stack []types.Type) []shape {
	depth := len(stack)
	if depth > 12 {
		throwf("freshOfType depth at %s", t)
	}
	if _, ok := t.(*types.Named); ok {
		stack = append(append([]types.Type(nil), stack...), t)
	}
	one := func(v Value, c *Term) []shape { return []shape{{c, v}} }
	if isNamed(t, "math/big", "Int") {
		v := FreshVar(tag, SInt)
		s.W.Nondet = append(s.W.Nondet, NondetEntry{Tag: tag, T: v, Kind: "int"})
		return one(&BigV{v}, TTrue)
	}
	if isNamed(t, "time", "Time") {
		v := FreshVar(tag, SInt)
		s.W.Nondet = append(s.W.Nondet, NondetEntry{Tag: tag, T: v, Kind: "time"})
		return one(&TimeV{v}, TTrue)
	}
	switch u := t.Underlying().(type) {
	case *types.Basic:
		switch {
		case u.Info()&types.IsBoolean != 0:
			v := FreshVar(tag, SBool)
			s.W.Nondet = append(s.W.Nondet, NondetEntry{Tag: tag, T: v, Kind: "bool"})
			return one(v, TTrue)
		case u.Info()&types.IsInteger != 0:
			bits, signed, _ := intKind(t)
			v := FreshVar(tag, SInt)
			lo, hi := intRange(bits, signed)
			SetVarBounds(v, lo, hi)
			s.W.Nondet = append(s.W.Nondet, NondetEntry{Tag: tag, T: v, Kind: "int"})
			return one(v, And(Le(MkInt(lo), v), Le(v, MkInt(hi))))
		case u.Info()&types.IsString != 0:
			v := FreshVar(tag, SStr)
			s.W.Nondet = append(s.W.Nondet, NondetEntry{Tag: tag, T: v, Kind: "str"})
			return one(v, TTrue)
		}
	case *types.Pointer:
		sub := e.freshOfTypeR(s, u.Elem(), tag, stack)
		var out []shape
		for _, sh := range sub {
			out = append(out, shape{sh.cond, &FrozenPtr{V: sh.val}})
		}
		return out
	case *types.Struct:
		acc := []shape{{TTrue, &StructV{}}}
		for i := 0; i < u.NumFields(); i++ {
			f := u.Field(i)
			var sub []shape
			if len(f.Name()) >= 4 && f.Name()[:4] == "XXX_" {
				sub = []shape{{TTrue, zeroFrozen(f.Type())}}
			} else {
				sub = e.freshOfTypeR(s, f.Type(), tag+"."+f.Name(), stack)
			}
			var next []shape
			for _, a := range acc {
				for _, b := range sub {
					nf := append(append([]Value(nil), a.val.(*StructV).F...), b.val)
					next = append(next, shape{And(a.cond, b.cond), &StructV{nf}})
				}
			}
			acc = next
			if len(acc) > 64 {
				throwf("freshOfType: too many shapes for %s", t)
			}
		}
		return acc
	case *types.Slice:
		if isByteSlice(t) {
			v := FreshVar(tag, SStr)
			s.W.Nondet = append(s.W.Nondet, NondetEntry{Tag: tag, T: v, Kind: "bytes"})
			return one(&BytesV{T: v, NilT: Eq(Len(v), MkI(0))}, TTrue)
		}
		bound := s.W.SliceBound
		if b, ok := s.W.Ghost["slicebound:"+lastSeg(tag)]; ok {
			bound = int(b.(*Term).IV.Int64())
		}
		// self-referential element type: cut the nesting at RecBound (a stated bound)
		et := u.Elem()
		if p, ok := et.Underlying().(*types.Pointer); ok {
			et = p.Elem()
		}
		occ := 0
		for _, st := range stack {
			if types.Identical(st, et) {
				occ++
			}
		}
		if occ >= RecBound {
			bound = 0
			e.mu.Lock()
			e.Bounds["nesting."+shortType(et)] = RecBound
			e.mu.Unlock()
		}
		var out []shape
		for n := 0; n <= bound; n++ {
			acc := []shape{{TTrue, &FrozenSlice{Nil: n == 0}}}
			for i := 0; i < n; i++ {
				sub := e.freshOfTypeR(s, u.Elem(), fmt.Sprintf("%s[%d]", tag, i), stack)
				var next []shape
				for _, a := range acc {
					for _, b := range sub {
						ne := append(append([]Value(nil), a.val.(*FrozenSlice).E...), b.val)
						next = append(next, shape{And(a.cond, b.cond), &FrozenSlice{E: ne}})
					}
				}
				acc = next
			}
			out = append(out, acc...)
		}
		return out
	case *types.Array:
		if isByteArray(t) {
			v := FreshVar(tag, SStr)
			s.W.Nondet = append(s.W.Nondet, NondetEntry{Tag: tag, T: v, Kind: "bytes"})
			return one(&BytesV{T: v, NilT: TFalse}, Eq(Len(v), MkI(u.Len())))
		}
	case *types.Map:
		// arbitrary content: an open map whose entries are materialised when first looked up
		return one(&FrozenMap{Open: true, Tag: tag}, TTrue)
	}
	throwf("freshOfType %s", t)
	return nil
}

func lastSeg(tag string) string {
	for i := len(tag) - 1; i >= 0; i-- {
		if tag[i] == '.' {
			return tag[i+1:]
		}
	}
	return tag
}

func zeroFrozen(t types.Type) Value {
	v := zeroValue(t)
	switch x := v.(type) {
	case *SliceV:
		return &FrozenSlice{Nil: true}
	case *MapRef:
		return &FrozenMap{Nil: true}
	case *Ptr:
		return &FrozenPtr{Nil: true}
	default:
		return x
	}
}
