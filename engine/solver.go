package gosym

// Solver portfolio: persistent z3-new and cvc5 processes, one self-contained query at a time.

import (
	"bufio"
	"crypto/sha256"
	"fmt"
	"io"
	"os"
	"os/exec"
	"strings"
	"sync"
	"sync/atomic"
	"time"
)

type Verdict int

const (
	Unknown Verdict = iota
	Sat
	Unsat
)

func (v Verdict) String() string { return [...]string{"unknown", "sat", "unsat"}[v] }

type proc struct {
	name   string
	cmd    *exec.Cmd
	in     io.WriteCloser
	out    *bufio.Reader
	dead   bool
	argv   []string
	mu     sync.Mutex
	starts int
}

func (p *proc) start() error {
	p.cmd = exec.Command(p.argv[0], p.argv[1:]...)
	in, err := p.cmd.StdinPipe()
	if err != nil {
		return err
	}
	out, err := p.cmd.StdoutPipe()
	if err != nil {
		return err
	}
	p.cmd.Stderr = nil
	if err := p.cmd.Start(); err != nil {
		return err
	}
	p.in, p.out = in, bufio.NewReaderSize(out, 1<<20)
	p.dead = false
	p.starts++
	return nil
}

func (p *proc) kill() {
	if p.cmd != nil && p.cmd.Process != nil {
		p.cmd.Process.Kill()
		p.cmd.Wait()
	}
	p.dead = true
}

type Model map[string]string // printed symbol -> SMT value text

type result struct {
	v     Verdict
	model Model
	err   string
	who   string
	dur   time.Duration
}

// ask sends one query; reads "sat/unsat/unknown" and optionally values. Caller holds p.mu.
func (p *proc) ask(script string, timeoutMs int, wantModel []string, cancel <-chan struct{}) result {
	if p.dead || p.cmd == nil {
		if err := p.start(); err != nil {
			return result{err: err.Error()}
		}
	}
	t0 := time.Now()
	var sb strings.Builder
	sb.WriteString("(reset)\n")
	if p.name == "cvc5" {
		sb.WriteString("(set-logic ALL)\n(set-option :produce-models true)\n(set-option :strings-exp true)\n")
		fmt.Fprintf(&sb, "(set-option :tlimit-per %d)\n", timeoutMs)
	} else {
		sb.WriteString("(set-option :produce-models true)\n")
		fmt.Fprintf(&sb, "(set-option :timeout %d)\n", timeoutMs)
	}
	sb.WriteString(script)
	sb.WriteString("(check-sat)\n(echo \"<<done>>\")\n")
	type rd struct {
		lines []string
		err   error
	}
	readUntil := func(marker string) rd {
		var lines []string
		for {
			l, err := p.out.ReadString('\n')
			if err != nil {
				return rd{lines, err}
			}
			l = strings.TrimSpace(l)
			if l == marker || l == "\""+marker+"\"" {
				return rd{lines, nil}
			}
			if l != "" {
				lines = append(lines, l)
			}
		}
	}
	done := make(chan rd, 1)
	go func() {
		if _, err := io.WriteString(p.in, sb.String()); err != nil {
			done <- rd{nil, err}
			return
		}
		done <- readUntil("<<done>>")
	}()
	var r rd
	hard := time.NewTimer(time.Duration(timeoutMs)*time.Millisecond + 3*time.Second)
	defer hard.Stop()
	select {
	case r = <-done:
	case <-cancel:
		p.kill()
		return result{v: Unknown, err: "cancelled", who: p.name}
	case <-hard.C:
		p.kill()
		return result{v: Unknown, err: "hard-timeout", who: p.name, dur: time.Since(t0)}
	}
	if r.err != nil {
		p.kill()
		return result{v: Unknown, err: "io: " + r.err.Error(), who: p.name}
	}
	res := result{who: p.name}
	for _, l := range r.lines {
		switch {
		case l == "sat":
			res.v = Sat
		case l == "unsat":
			res.v = Unsat
		case l == "unknown" || l == "timeout":
		case strings.HasPrefix(l, "(error"):
			res.err = l
		}
	}
	if res.err != "" {
		res.v = Unknown
		res.dur = time.Since(t0)
		return res
	}
	if res.v == Sat && len(wantModel) > 0 {
		res.model = Model{}
		// ask values in chunks
		for i := 0; i < len(wantModel); i += 40 {
			j := i + 40
			if j > len(wantModel) {
				j = len(wantModel)
			}
			q := "(get-value (" + strings.Join(wantModel[i:j], " ") + "))\n(echo \"<<done>>\")\n"
			if _, err := io.WriteString(p.in, q); err != nil {
				p.kill()
				break
			}
			rr := readUntil("<<done>>")
			if rr.err != nil {
				p.kill()
				break
			}
			parseValues(strings.Join(rr.lines, "\n"), res.model)
		}
	}
	res.dur = time.Since(t0)
	return res
}

// parseValues parses "((sym val) (sym val))" into m.
func parseValues(s string, m Model) {
	toks := sexpTokens(s)
	pos := 0
	var parse func() interface{}
	parse = func() interface{} {
		if pos >= len(toks) {
			return nil
		}
		t := toks[pos]
		pos++
		if t == "(" {
			var l []interface{}
			for pos < len(toks) && toks[pos] != ")" {
				l = append(l, parse())
			}
			pos++
			return l
		}
		return t
	}
	var render func(x interface{}) string
	render = func(x interface{}) string {
		switch v := x.(type) {
		case string:
			return v
		case []interface{}:
			var ps []string
			for _, e := range v {
				ps = append(ps, render(e))
			}
			return "(" + strings.Join(ps, " ") + ")"
		}
		return ""
	}
	for pos < len(toks) {
		top := parse()
		l, ok := top.([]interface{})
		if !ok {
			continue
		}
		for _, e := range l {
			pair, ok := e.([]interface{})
			if !ok || len(pair) != 2 {
				continue
			}
			k := render(pair[0])
			if len(k) >= 2 && k[0] == '|' && k[len(k)-1] == '|' {
				k = k[1 : len(k)-1]
			}
			m[k] = render(pair[1])
		}
	}
}

func sexpTokens(s string) []string {
	var toks []string
	i := 0
	for i < len(s) {
		c := s[i]
		switch {
		case c == '(' || c == ')':
			toks = append(toks, string(c))
			i++
		case c == ' ' || c == '\n' || c == '\t' || c == '\r':
			i++
		case c == '"':
			j := i + 1
			for j < len(s) {
				if s[j] == '"' {
					if j+1 < len(s) && s[j+1] == '"' {
						j += 2
						continue
					}
					break
				}
				j++
			}
			toks = append(toks, s[i:j+1])
			i = j + 1
		case c == '|':
			j := i + 1
			for j < len(s) && s[j] != '|' {
				j++
			}
			toks = append(toks, s[i:j+1])
			i = j + 1
		default:
			j := i
			for j < len(s) && !strings.ContainsRune("() \n\t\r", rune(s[j])) {
				j++
			}
			toks = append(toks, s[i:j])
			i = j
		}
	}
	return toks
}

// ---------- portfolio

type Stats struct {
	Queries     int64
	CacheHits   int64
	Sat         int64
	Unsat       int64
	UnknownN    int64
	TimeNs      map[string]*int64
	Wins        map[string]*int64
	Errors      int64
	Disagree    int64
}

type Portfolio struct {
	procs  []*proc
	mu     sync.Mutex
	cache  map[[32]byte]result
	Stats  Stats
	DumpTo string // directory to dump queries (debug)
	Only   string // restrict to one solver (diff mode)
	nDump  int64
}

func NewPortfolio() *Portfolio {
	pf := &Portfolio{cache: map[[32]byte]result{}}
	pf.Stats.TimeNs = map[string]*int64{}
	pf.Stats.Wins = map[string]*int64{}
	for _, s := range [][]string{{"z3-new", "z3-new", "-in"}, {"cvc5", "cvc5", "--incremental", "--lang=smt2"}} {
		pf.procs = append(pf.procs, &proc{name: s[0], argv: s[1:]})
		pf.Stats.TimeNs[s[0]] = new(int64)
		pf.Stats.Wins[s[0]] = new(int64)
	}
	if os.Getenv("GOSYM_Z3OLD") != "" {
		pf.procs = append(pf.procs, &proc{name: "z3", argv: []string{"z3", "-in"}})
		pf.Stats.TimeNs["z3"] = new(int64)
		pf.Stats.Wins["z3"] = new(int64)
	}
	return pf
}

func (pf *Portfolio) Close() {
	for _, p := range pf.procs {
		p.mu.Lock()
		p.kill()
		p.mu.Unlock()
	}
}

// Check decides satisfiability of the conjunction. wantModel: return values for all symbols on sat.
func (pf *Portfolio) Check(asserts []*Term, timeoutMs int, wantModel bool) (Verdict, Model, string) {
	v, m, _, who := pf.CheckSyms(asserts, timeoutMs, wantModel)
	return v, m, who
}

// CheckSyms is Check that also returns the symbol terms (variables, UF applications) of the query.
func (pf *Portfolio) CheckSyms(asserts []*Term, timeoutMs int, wantModel bool) (Verdict, Model, []*Term, string) {
	for _, a := range asserts {
		if a == TFalse {
			return Unsat, nil, nil, "simp"
		}
	}
	asserts = propagateConstEq(asserts)
	for _, a := range asserts {
		if a == TFalse {
			return Unsat, nil, nil, "simp"
		}
	}
	script, syms := Script(asserts)
	var want []string
	if wantModel {
		for _, s := range syms {
			if s.Op == "var" {
				want = append(want, smtSym(s.SV))
			} else {
				want = append(want, fmt.Sprintf("t%d", s.ID))
			}
		}
	}
	key := sha256.Sum256([]byte(fmt.Sprintf("%v|%s", wantModel, script)))
	pf.mu.Lock()
	if r, ok := pf.cache[key]; ok {
		pf.mu.Unlock()
		atomic.AddInt64(&pf.Stats.CacheHits, 1)
		return r.v, r.model, syms, r.who
	}
	pf.mu.Unlock()
	atomic.AddInt64(&pf.Stats.Queries, 1)
	if pf.DumpTo != "" {
		n := atomic.AddInt64(&pf.nDump, 1)
		os.WriteFile(fmt.Sprintf("%s/q%05d.smt2", pf.DumpTo, n), []byte(script+"(check-sat)\n"), 0o644)
	}
	tq := time.Now()
	resCh := make(chan result, len(pf.procs))
	cancel := make(chan struct{})
	n := 0
	for _, p := range pf.procs {
		if pf.Only != "" && p.name != pf.Only {
			continue
		}
		n++
		go func(p *proc) {
			p.mu.Lock()
			r := p.ask(script, timeoutMs, want, cancel)
			p.mu.Unlock()
			atomic.AddInt64(pf.Stats.TimeNs[p.name], int64(r.dur))
			resCh <- r
		}(p)
	}
	var final result
	got := 0
	for got < n {
		r := <-resCh
		got++
		if r.err != "" && r.err != "cancelled" {
			atomic.AddInt64(&pf.Stats.Errors, 1)
			if os.Getenv("GOSYM_DEBUG") != "" {
				fmt.Fprintf(os.Stderr, "solver %s: %s\n", r.who, r.err)
			}
		}
		if r.v != Unknown && final.v == Unknown {
			final = r
			atomic.AddInt64(pf.Stats.Wins[r.who], 1)
			// give the others a short grace period, then cancel
			if got < n {
				grace := time.After(30 * time.Millisecond)
			wait:
				for got < n {
					select {
					case r2 := <-resCh:
						got++
						if r2.v != Unknown && r2.v != final.v {
							atomic.AddInt64(&pf.Stats.Disagree, 1)
							final = result{v: Unknown, err: "solver disagreement", who: "both"}
						}
					case <-grace:
						close(cancel)
						for got < n {
							<-resCh
							got++
						}
						break wait
					}
				}
			}
		}
	}
	if os.Getenv("GOSYM_SLOW") != "" && time.Since(tq) > 300*time.Millisecond {
		fmt.Fprintf(os.Stderr, "SLOW query %.2fs verdict=%v winner=%s size=%d\n", time.Since(tq).Seconds(), final.v, final.who, len(script))
		if pf.DumpTo != "" {
			n := atomic.AddInt64(&pf.nDump, 1)
			os.WriteFile(fmt.Sprintf("%s/slow%05d.smt2", pf.DumpTo, n), []byte(script+"(check-sat)\n"), 0o644)
		}
	}
	switch final.v {
	case Sat:
		atomic.AddInt64(&pf.Stats.Sat, 1)
	case Unsat:
		atomic.AddInt64(&pf.Stats.Unsat, 1)
	default:
		atomic.AddInt64(&pf.Stats.UnknownN, 1)
	}
	pf.mu.Lock()
	pf.cache[key] = final
	pf.mu.Unlock()
	return final.v, final.model, syms, final.who
}
