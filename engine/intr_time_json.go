package gosym

import (
	"fmt"
	"go/types"
	"math/big"
)

var nsPerSec = big.NewInt(1_000_000_000)

func timeOf(v Value) *Term {
	t, ok := v.(*TimeV)
	if !ok {
		throwf("time operand %T", v)
	}
	return t.NS
}

func satDuration(d *Term) *Term {
	lo, hi := intRange(64, true)
	return Ite(Lt(d, MkInt(lo)), MkInt(lo), Ite(Lt(MkInt(hi), d), MkInt(hi), d))
}

func registerTime() {
	reg := RegisterIntrinsic
	reg("(time.Time).Before", func(c *CallCtx, a []Value) []Outcome { return ret1(Lt(timeOf(a[0]), timeOf(a[1]))) })
	reg("(time.Time).After", func(c *CallCtx, a []Value) []Outcome { return ret1(Lt(timeOf(a[1]), timeOf(a[0]))) })
	reg("(time.Time).Equal", func(c *CallCtx, a []Value) []Outcome { return ret1(Eq(timeOf(a[0]), timeOf(a[1]))) })
	reg("(time.Time).Compare", func(c *CallCtx, a []Value) []Outcome {
		x, y := timeOf(a[0]), timeOf(a[1])
		return ret1(Ite(Lt(x, y), MkI(-1), Ite(Lt(y, x), MkI(1), MkI(0))))
	})
	reg("(time.Time).IsZero", func(c *CallCtx, a []Value) []Outcome { return ret1(Eq(timeOf(a[0]), zeroTime())) })
	reg("(time.Time).Sub", func(c *CallCtx, a []Value) []Outcome {
		return ret1(satDuration(Sub(timeOf(a[0]), timeOf(a[1]))))
	})
	reg("(time.Time).Add", func(c *CallCtx, a []Value) []Outcome {
		return ret1(&TimeV{Add(timeOf(a[0]), a[1].(*Term))})
	})
	reg("(time.Time).AddDate", func(c *CallCtx, a []Value) []Outcome {
		y, m, d := a[1].(*Term), a[2].(*Term), a[3].(*Term)
		if !y.isIv(0) || !m.isIv(0) {
			throwf("AddDate with years/months")
		}
		return ret1(&TimeV{Add(timeOf(a[0]), Mul(d, MkI(86400*1_000_000_000)))})
	})
	reg("(time.Time).UTC", func(c *CallCtx, a []Value) []Outcome { return ret1(a[0]) })
	reg("(time.Time).Unix", func(c *CallCtx, a []Value) []Outcome { return ret1(Div(timeOf(a[0]), MkInt(nsPerSec))) })
	reg("(time.Time).UnixMicro", func(c *CallCtx, a []Value) []Outcome { return ret1(Div(timeOf(a[0]), MkI(1000))) })
	reg("(time.Time).UnixMilli", func(c *CallCtx, a []Value) []Outcome { return ret1(Div(timeOf(a[0]), MkI(1000000))) })
	reg("(time.Time).UnixNano", func(c *CallCtx, a []Value) []Outcome {
		return ret1(c.E.wrap(c.S, timeOf(a[0]), 64, true, "UnixNano"))
	})
	reg("(time.Time).String", func(c *CallCtx, a []Value) []Outcome { return ret1(FreshVar("timestr", SStr)) })
	reg("(time.Time).Format", func(c *CallCtx, a []Value) []Outcome { return ret1(FreshVar("timestr", SStr)) })
	reg("(time.Duration).String", func(c *CallCtx, a []Value) []Outcome { return ret1(FreshVar("durstr", SStr)) })
	reg("time.Unix", func(c *CallCtx, a []Value) []Outcome {
		return ret1(&TimeV{Add(Mul(a[0].(*Term), MkInt(nsPerSec)), a[1].(*Term))})
	})
	reg("time.UnixMicro", func(c *CallCtx, a []Value) []Outcome { return ret1(&TimeV{Mul(a[0].(*Term), MkI(1000))}) })
	reg("time.UnixMilli", func(c *CallCtx, a []Value) []Outcome { return ret1(&TimeV{Mul(a[0].(*Term), MkI(1000000))}) })
	reg("time.Now", func(c *CallCtx, a []Value) []Outcome {
		t := FreshVar("env.timenow", SInt)
		c.S.W.Nondet = append(c.S.W.Nondet, NondetEntry{Tag: "env.time.Now", T: t, Kind: "env"})
		return ret1(&TimeV{t})
	})
	reg("time.Since", func(c *CallCtx, a []Value) []Outcome {
		t := FreshVar("env.since", SInt)
		c.S.W.Nondet = append(c.S.W.Nondet, NondetEntry{Tag: "env.time.Since", T: t, Kind: "env"})
		return ret1(t)
	})
	reg("time.Date", func(c *CallCtx, a []Value) []Outcome {
		throwf("time.Date")
		return nil
	})
}

// ---------- encoding/json (A-JSON)

// JSONBox is the content of a []byte produced by json.Marshal.
func registerJSON() {
	reg := RegisterIntrinsic
	DeclareUF("jsonhas", []Sort{SStr, SStr}, SBool, nil)
	DeclareUF("jsonval", []Sort{SStr, SStr}, SStr, nil)
	reg("encoding/json.Valid", func(c *CallCtx, a []Value) []Outcome {
		b := a[0].(*BytesV)
		if b.Blob != nil && b.Blob.JSON {
			return ret1(TTrue)
		}
		if _, ok := c.S.W.Ghost[fmt.Sprintf("jsonbox:%d", b.T.ID)]; ok {
			return ret1(TTrue)
		}
		return ret1(App("jsonvalid", b.T))
	})
	reg("encoding/json.Marshal", func(c *CallCtx, a []Value) []Outcome {
		iv := a[0].(*IfaceV)
		if iv.T == nil {
			return ret1(tuple(&BytesV{T: MkStr("null"), NilT: TFalse}, &IfaceV{}))
		}
		fz := c.E.freeze(c.S, iv.V, iv.T)
		// the text is an uninterpreted function of nothing we know: a fresh string tied to the box
		// A-JSON-SORT: the encoding is a function of the content (map keys are sorted by encoding/json),
		// so equal content gets the same text term
		memo := "jsonenc:" + iv.T.String() + ":" + showValue(fz)
		var t *Term
		if g, ok := c.S.W.Ghost[memo]; ok {
			t = g.(*Term)
		} else {
			t = FreshVar("json", SStr)
			c.S.W.Ghost[memo] = t
		}
		blob := &Blob{Typ: iv.T, Val: fz, JSON: true}
		// the text stays tied to its content when it travels as a string (record fields)
		c.S.W.Ghost[fmt.Sprintf("jsonbox:%d", t.ID)] = &OpaqueV{Kind: "jsonbox", Data: blob}
		return ret1(tuple(&BytesV{T: t, NilT: TFalse, Blob: blob}, &IfaceV{}))
	})
	reg("encoding/json.Unmarshal", func(c *CallCtx, a []Value) []Outcome {
		b := a[0].(*BytesV)
		iv := a[1].(*IfaceV)
		p, ok := iv.V.(*Ptr)
		if !ok || iv.T == nil {
			throwf("json.Unmarshal into %s", showValue(iv))
		}
		et := iv.T.Underlying().(*types.Pointer).Elem()
		if b.Blob == nil {
			if g, ok := c.S.W.Ghost[fmt.Sprintf("jsonbox:%d", b.T.ID)]; ok {
				b = &BytesV{T: b.T, NilT: b.NilT, Blob: g.(*OpaqueV).Data.(*Blob)}
			}
		}
		if b.Blob != nil && b.Blob.JSON {
			if types.Identical(b.Blob.Typ, et) || types.Identical(b.Blob.Typ, iv.T) {
				v := b.Blob.Val
				if types.Identical(b.Blob.Typ, iv.T) { // marshalled a pointer
					if fp, ok := v.(*FrozenPtr); ok {
						v = fp.V
					}
				}
				c.S.store(p, c.E.thaw(c.S, v))
				return ret1(&IfaceV{})
			}
			throwf("json.Unmarshal of %s box into %s", b.Blob.Typ, et)
		}
		// arbitrary attacker-chosen text decoded into a map: unknown content as a function of (text, key)
		if mt, ok := et.Underlying().(*types.Map); ok {
			if kb, ok := mt.Key().Underlying().(*types.Basic); ok && kb.Info()&types.IsString != 0 {
				if vb, ok := mt.Elem().Underlying().(*types.Basic); ok && vb.Info()&types.IsString != 0 {
					bad := Not(App("jsonvalid", b.T))
					text := b.T
					return []Outcome{
						{Cond: Not(bad), Do: func(st *State) {
							st.store(p, &MapRef{Obj: st.alloc(&MapObj{Open: true, Tag: "jsonmap", Src: text})})
						}, Ret: &IfaceV{}},
						{Cond: bad, Ret: newErr("json.Unmarshal", nil)},
					}
				}
			}
		}
		// arbitrary attacker-chosen text: a fresh value of the target type, memoised per text term; may fail
		key := "json:" + et.String() + ":" + b.T.String()
		var val Value
		errFlag := FreshVar("jsonerr", SBool)
		if g, ok := c.S.W.Ghost[key]; ok {
			val = g.(*TupleV).E[0]
			errFlag = g.(*TupleV).E[1].(*Term)
		} else {
			outs := c.E.freshOfType(c.S, et, "json."+sanitize(et.String()), 0)
			if len(outs) != 1 {
				// fork over shapes
				var res []Outcome
				for _, o := range outs {
					oo := o
					res = append(res, Outcome{Cond: And(oo.cond, Not(errFlag)), Do: func(st *State) {
						st.W.Ghost[key] = tuple(oo.val, errFlag)
						st.store(p, c.E.thaw(st, oo.val))
					}, Ret: &IfaceV{}})
				}
				res = append(res, Outcome{Cond: errFlag, Ret: newErr("json.Unmarshal", nil)})
				return res
			}
			val = outs[0].val
			c.S.W.Ghost[key] = tuple(val, errFlag)
		}
		return []Outcome{
			{Cond: Not(errFlag), Do: func(st *State) { st.store(p, c.E.thaw(st, val)) }, Ret: &IfaceV{}},
			{Cond: errFlag, Ret: newErr("json.Unmarshal", nil)},
		}
	})
}
