package gosym

// Evaluation of terms under a solver model (used to reuse a satisfying assignment of the path
// condition for later feasibility questions: if the cached model already makes a branch condition
// true, the branch is feasible and no solver call is needed).

import (
	"math/big"
	"strings"
)

type MVal struct {
	I *big.Int
	S *string
	B *bool
}

type CachedModel struct {
	vals map[int]MVal // term id (vars and UF applications) -> value
}

var reMatchers = map[string]func(string) bool{}

func parseMVal(raw string, sort Sort) (MVal, bool) {
	raw = strings.TrimSpace(raw)
	switch sort {
	case SBool:
		if raw == "true" || raw == "false" {
			b := raw == "true"
			return MVal{B: &b}, true
		}
	case SInt:
		neg := false
		r := raw
		if strings.HasPrefix(r, "(-") {
			neg = true
			r = strings.TrimSpace(strings.TrimSuffix(strings.TrimPrefix(r, "(-"), ")"))
		}
		v, ok := new(big.Int).SetString(r, 10)
		if ok {
			if neg {
				v.Neg(v)
			}
			return MVal{I: v}, true
		}
	case SStr:
		if len(raw) >= 2 && raw[0] == '"' {
			s := string(smtUnescape(raw))
			return MVal{S: &s}, true
		}
	}
	return MVal{}, false
}

// NewCachedModel builds a model from solver output for the given symbol terms, on top of base.
func NewCachedModel(base *CachedModel, m Model, syms []*Term) *CachedModel {
	cm := &CachedModel{vals: map[int]MVal{}}
	if base != nil {
		for k, v := range base.vals {
			cm.vals[k] = v
		}
	}
	for _, t := range syms {
		var key string
		if t.Op == "var" {
			key = t.SV
		} else {
			key = "t" + itoa(t.ID)
		}
		raw, ok := m[key]
		if !ok {
			continue
		}
		if v, ok := parseMVal(raw, t.Sort); ok {
			cm.vals[t.ID] = v
		} else {
			delete(cm.vals, t.ID)
		}
	}
	return cm
}

func itoa(i int) string { return big.NewInt(int64(i)).String() }

// Eval evaluates t under the model; ok=false when some needed value is missing.
func (cm *CachedModel) Eval(t *Term) (MVal, bool) {
	memo := map[int]MVal{}
	return cm.eval(t, memo)
}

func (cm *CachedModel) eval(t *Term, memo map[int]MVal) (MVal, bool) {
	if v, ok := memo[t.ID]; ok {
		return v, true
	}
	v, ok := cm.eval1(t, memo)
	if ok {
		memo[t.ID] = v
	}
	return v, ok
}

func mvI(i *big.Int) MVal  { return MVal{I: i} }
func mvS(s string) MVal    { return MVal{S: &s} }
func mvB(b bool) MVal      { return MVal{B: &b} }

func (cm *CachedModel) eval1(t *Term, memo map[int]MVal) (MVal, bool) {
	switch t.Op {
	case "const":
		switch t.Sort {
		case SInt:
			return mvI(t.IV), true
		case SBool:
			return mvB(t.BV), true
		}
		return mvS(t.SV), true
	case "var", "uf":
		v, ok := cm.vals[t.ID]
		return v, ok
	}
	// short-circuit boolean structure first
	switch t.Op {
	case "and":
		all := true
		for _, a := range t.Args {
			v, ok := cm.eval(a, memo)
			if ok && !*v.B {
				return mvB(false), true
			}
			if !ok {
				all = false
			}
		}
		if all {
			return mvB(true), true
		}
		return MVal{}, false
	case "or":
		all := true
		for _, a := range t.Args {
			v, ok := cm.eval(a, memo)
			if ok && *v.B {
				return mvB(true), true
			}
			if !ok {
				all = false
			}
		}
		if all {
			return mvB(false), true
		}
		return MVal{}, false
	case "ite":
		c, ok := cm.eval(t.Args[0], memo)
		if !ok {
			return MVal{}, false
		}
		if *c.B {
			return cm.eval(t.Args[1], memo)
		}
		return cm.eval(t.Args[2], memo)
	}
	args := make([]MVal, len(t.Args))
	for i, a := range t.Args {
		v, ok := cm.eval(a, memo)
		if !ok {
			return MVal{}, false
		}
		args[i] = v
	}
	switch t.Op {
	case "not":
		return mvB(!*args[0].B), true
	case "=":
		switch t.Args[0].Sort {
		case SInt:
			return mvB(args[0].I.Cmp(args[1].I) == 0), true
		case SBool:
			return mvB(*args[0].B == *args[1].B), true
		}
		return mvB(*args[0].S == *args[1].S), true
	case "<":
		return mvB(args[0].I.Cmp(args[1].I) < 0), true
	case "<=":
		return mvB(args[0].I.Cmp(args[1].I) <= 0), true
	case "+":
		return mvI(new(big.Int).Add(args[0].I, args[1].I)), true
	case "-":
		return mvI(new(big.Int).Sub(args[0].I, args[1].I)), true
	case "*":
		return mvI(new(big.Int).Mul(args[0].I, args[1].I)), true
	case "neg":
		return mvI(new(big.Int).Neg(args[0].I)), true
	case "div", "mod":
		if args[1].I.Sign() == 0 {
			return MVal{}, false
		}
		q, m := new(big.Int).DivMod(args[0].I, args[1].I, new(big.Int))
		if t.Op == "div" {
			return mvI(q), true
		}
		return mvI(m), true
	case "str.++":
		var sb strings.Builder
		for _, a := range args {
			sb.WriteString(*a.S)
		}
		return mvS(sb.String()), true
	case "str.len":
		return mvI(big.NewInt(int64(len(*args[0].S)))), true
	case "str.substr":
		s := *args[0].S
		if !args[1].I.IsInt64() || !args[2].I.IsInt64() {
			return mvS(""), true
		}
		o, n := args[1].I.Int64(), args[2].I.Int64()
		if o < 0 || o >= int64(len(s)) || n <= 0 {
			return mvS(""), true
		}
		e := o + n
		if e > int64(len(s)) || e < 0 {
			e = int64(len(s))
		}
		return mvS(s[o:e]), true
	case "str.contains":
		return mvB(strings.Contains(*args[0].S, *args[1].S)), true
	case "str.prefixof":
		return mvB(strings.HasPrefix(*args[1].S, *args[0].S)), true
	case "str.suffixof":
		return mvB(strings.HasSuffix(*args[1].S, *args[0].S)), true
	case "str.indexof":
		s, sub := *args[0].S, *args[1].S
		if !args[2].I.IsInt64() {
			return mvI(big.NewInt(-1)), true
		}
		from := args[2].I.Int64()
		if from < 0 || from > int64(len(s)) {
			return mvI(big.NewInt(-1)), true
		}
		i := strings.Index(s[from:], sub)
		if i < 0 {
			return mvI(big.NewInt(-1)), true
		}
		return mvI(big.NewInt(int64(i) + from)), true
	case "str.replace_all":
		if *args[1].S == "" {
			return args[0], true
		}
		return mvS(strings.ReplaceAll(*args[0].S, *args[1].S, *args[2].S)), true
	case "str.from_int":
		if args[0].I.Sign() < 0 {
			return mvS(""), true
		}
		return mvS(args[0].I.String()), true
	case "str.to_int":
		s := *args[0].S
		if s == "" {
			return mvI(big.NewInt(-1)), true
		}
		for i := 0; i < len(s); i++ {
			if s[i] < '0' || s[i] > '9' {
				return mvI(big.NewInt(-1)), true
			}
		}
		v, _ := new(big.Int).SetString(s, 10)
		return mvI(v), true
	case "str.to_code":
		s := *args[0].S
		if len(s) != 1 {
			return mvI(big.NewInt(-1)), true
		}
		return mvI(big.NewInt(int64(s[0]))), true
	case "str.from_code":
		if args[0].I.IsInt64() && args[0].I.Int64() >= 0 && args[0].I.Int64() < 256 {
			return mvS(string([]byte{byte(args[0].I.Int64())})), true
		}
		return mvS(""), true
	case "str.in_re":
		termMu.Lock()
		f := reMatchers[t.SV]
		termMu.Unlock()
		if f == nil {
			return MVal{}, false
		}
		return mvB(f(*args[0].S)), true
	}
	return MVal{}, false
}

// modelCoherent: a model assembled from several sliced answers treats every UF application as an
// independent value; before it is turned into a concrete scenario it must respect congruence (equal
// arguments, equal results) and the UF axiom instances the solvers are given.
func modelCoherent(cm *CachedModel, ts []*Term) bool {
	memo := map[int]MVal{}
	seen := map[int]bool{}
	var apps []*Term
	var walk func(t *Term)
	walk = func(t *Term) {
		if seen[t.ID] {
			return
		}
		seen[t.ID] = true
		for _, a := range t.Args {
			walk(a)
		}
		if t.Op == "uf" {
			apps = append(apps, t)
		}
	}
	for _, t := range ts {
		walk(t)
	}
	key := func(v MVal) string {
		switch {
		case v.I != nil:
			return "i" + v.I.String()
		case v.S != nil:
			return "s" + *v.S
		case v.B != nil:
			if *v.B {
				return "bt"
			}
			return "bf"
		}
		return "?"
	}
	byArgs := map[string]string{}
	for round := 0; round < 2; round++ {
		n := len(apps)
		for _, app := range apps[:n] {
			rv, ok := cm.eval(app, memo)
			if !ok {
				continue
			}
			k := app.SV
			full := true
			for _, a := range app.Args {
				av, ok := cm.eval(a, memo)
				if !ok {
					full = false
					break
				}
				k += "|" + key(av)
			}
			if full {
				if prev, ok := byArgs[k]; ok && prev != key(rv) {
					return false
				}
				byArgs[k] = key(rv)
			}
			if round == 0 {
				termMu.Lock()
				gen := ufAxioms[app.SV]
				termMu.Unlock()
				if gen != nil {
					for _, ax := range gen(app) {
						if v, ok := cm.eval(ax, memo); ok && v.B != nil && !*v.B {
							return false
						}
						walk(ax) // applications introduced by the axioms take part in the congruence check
					}
				}
			}
		}
	}
	return true
}
