package gosym

import (
	"fmt"
	"go/token"
	"go/types"
	"strings"

	"golang.org/x/tools/go/ssa"
)

type ErrData struct {
	Desc   string
	Parent *ErrData
}

func (d *ErrData) Root() *ErrData {
	for d.Parent != nil {
		d = d.Parent
	}
	return d
}

func newErr(desc string, parent *ErrData) Value {
	return &IfaceV{T: opaqueT, V: &OpaqueV{Kind: "error", Data: &ErrData{Desc: desc, Parent: parent}}}
}

func opq(kind string, data interface{}) Value {
	return &IfaceV{T: opaqueT, V: &OpaqueV{Kind: kind, Data: data}}
}

// CallCtx is what an intrinsic gets.
type CallCtx struct {
	E    *Engine
	S    *State
	Fr   *Frame
	Res  ssa.Value // may be nil
	Pos  token.Pos
	Name string
	Sig  *types.Signature
	Fn   *ssa.Function
}

// Intrinsic returns outcomes; a single unconditional outcome is applied in place.
type Intrinsic func(c *CallCtx, args []Value) []Outcome

var intrinsics = map[string]Intrinsic{}
var intrinsicPrefixes []struct {
	p string
	f Intrinsic
}

func RegisterIntrinsic(name string, f Intrinsic) { intrinsics[name] = f }
func RegisterIntrinsicPrefix(p string, f Intrinsic) {
	intrinsicPrefixes = append(intrinsicPrefixes, struct {
		p string
		f Intrinsic
	}{p, f})
}

func ret1(v Value) []Outcome { return []Outcome{{Cond: TTrue, Ret: v}} }
func retNone() []Outcome    { return []Outcome{{Cond: TTrue}} }
func tuple(vs ...Value) Value { return &TupleV{vs} }

func fnKey(fn *ssa.Function) string {
	if o := fn.Origin(); o != nil {
		return o.String()
	}
	return fn.String()
}

func lookupIntrinsic(name string) Intrinsic {
	if f, ok := intrinsics[name]; ok {
		return f
	}
	for _, p := range intrinsicPrefixes {
		if strings.HasPrefix(name, p.p) {
			return p.f
		}
	}
	return nil
}

func (e *Engine) call(s *State, fr *Frame, c *ssa.CallCommon, res ssa.Value) []*State {
	var args []Value
	fnv := e.get(s, fr, c.Value)
	for _, a := range c.Args {
		args = append(args, e.get(s, fr, a))
	}
	var m *types.Func
	if c.IsInvoke() {
		m = c.Method
	}
	return e.callValue(s, fr, fnv, m, args, res, c.Pos())
}

// callValue performs a call of fnv (or an invoke of method m on interface value fnv).
// It either pushes a frame (returns nil), applies an intrinsic (maybe forking), and advances PC on completion.
func (e *Engine) callValue(s *State, fr *Frame, fnv Value, m *types.Func, args []Value, res ssa.Value, pos token.Pos) []*State {
	if m != nil {
		iv, ok := fnv.(*IfaceV)
		if !ok {
			throwf("invoke on %T", fnv)
		}
		if iv.T == nil {
			panic(goPanic{"nil interface method call " + m.Name()})
		}
		if o, ok := iv.V.(*OpaqueV); ok && iv.T == opaqueT {
			name := "opaque:" + o.Kind + "." + m.Name()
			f := lookupIntrinsic(name)
			if f == nil {
				throwf("no model for %s", name)
			}
			return e.runIntrinsic(s, fr, name, f, append([]Value{iv}, args...), res, pos, nil)
		}
		sel := e.Prog.MethodSets.MethodSet(iv.T).Lookup(m.Pkg(), m.Name())
		if sel == nil {
			throwf("method %s not found on %s", m.Name(), iv.T)
		}
		fn := e.Prog.MethodValue(sel)
		if fn == nil {
			throwf("abstract method %s on %s", m.Name(), iv.T)
		}
		return e.callFn(s, fr, fn, append([]Value{iv.V}, args...), nil, res, pos)
	}
	f, ok := fnv.(*FuncV)
	if !ok {
		throwf("call of %T", fnv)
	}
	if f.Intr != "" {
		if strings.HasPrefix(f.Intr, "builtin:") {
			return e.builtin(s, fr, f.Intr[8:], args, res)
		}
		in := lookupIntrinsic(f.Intr)
		if in == nil {
			throwf("no intrinsic %s", f.Intr)
		}
		return e.runIntrinsic(s, fr, f.Intr, in, args, res, pos, nil)
	}
	if f.Fn == nil {
		panic(goPanic{"call of nil func"})
	}
	return e.callFn(s, fr, f.Fn, args, f.Bind, res, pos)
}

func (e *Engine) callFn(s *State, fr *Frame, fn *ssa.Function, args, bind []Value, res ssa.Value, pos token.Pos) []*State {
	key := fnKey(fn)
	if in := lookupIntrinsic(key); in != nil {
		return e.runIntrinsic(s, fr, key, in, args, res, pos, fn)
	}
	if ov, ok := s.W.Ghost["override:"+key]; ok && s.InitMode == 0 {
		// harness-declared cut: the callee is replaced by the harness's stub (recorded in the evidence)
		f := ov.(*FuncV)
		e.mu.Lock()
		e.IntrUsed["override:"+key]++
		e.mu.Unlock()
		e.pushFrame(s, f.Fn, args, f.Bind, res)
		return nil
	}
	if s.InitMode > 0 && fn.Name() == "init" && fn.Pkg != nil && fn.Signature.Recv() == nil && fn.Pkg.Func("init") == fn {
		// dependency initialisers run lazily on first touch of their globals
		fr.PC++
		return nil
	}
	if e.mergeable(fn) && s.InitMode == 0 && s.mergeDepth == 0 {
		return e.callMerged(s, fr, fn, args, bind, res)
	}
	e.pushFrame(s, fn, args, bind, res)
	return nil
}

func (e *Engine) runIntrinsic(s *State, fr *Frame, name string, in Intrinsic, args []Value, res ssa.Value, pos token.Pos, fn *ssa.Function) []*State {
	e.mu.Lock()
	e.IntrUsed[name]++
	e.mu.Unlock()
	if e.Cfg.Verbose && s.InitMode == 0 {
		var as []string
		for _, a := range args {
			sv := showValue(a)
			if len(sv) > 100 {
				sv = sv[:100] + "…"
			}
			as = append(as, sv)
		}
		s.Trace = append(s.Trace, strings.Repeat(" ", len(s.Frames)+1)+"*"+name+"("+strings.Join(as, ", ")+")")
	}
	c := &CallCtx{E: e, S: s, Fr: fr, Res: res, Pos: pos, Name: name, Fn: fn}
	nframes := len(s.Frames)
	outs := in(c, args)
	if outs == nil {
		// the intrinsic pushed a frame itself (higher-order) or handled everything
		if len(s.Frames) == nframes {
			fr.PC++
		}
		return nil
	}
	return e.applyOutcomes(s, fr, res, outs)
}

// ---------- builtins

func (e *Engine) builtin(s *State, fr *Frame, name string, args []Value, res ssa.Value) []*State {
	set := func(v Value) {
		if res != nil {
			e.setLocal(fr, res, v)
		}
		fr.PC++
	}
	switch name {
	case "len":
		switch x := args[0].(type) {
		case *Term:
			set(Len(x))
		case *BytesV:
			set(Len(x.T))
		case *SliceV:
			set(MkI(int64(x.Len)))
		case *MapRef:
			if x.Nil {
				set(MkI(0))
			} else {
				mo := s.load(&Ptr{Obj: x.Obj}).(*MapObj)
				if mo.Open {
					throwf("len of a map with arbitrary content")
				}
				n := MkI(0)
				for _, en := range mo.E {
					if en.Present == nil {
						n = Add(n, MkI(1))
					} else {
						n = Add(n, Ite(en.Present, MkI(1), MkI(0)))
					}
				}
				set(n)
			}
		case *ArrayV:
			set(MkI(int64(len(x.E))))
		case *Ptr:
			switch a := s.load(x).(type) {
			case *ArrayV:
				set(MkI(int64(len(a.E))))
			case *BytesV:
				set(Len(a.T))
			default:
				throwf("len of pointer to %T", a)
			}
		default:
			throwf("len of %T", args[0])
		}
	case "cap":
		switch x := args[0].(type) {
		case *SliceV:
			set(MkI(int64(x.Cap)))
		case *BytesV:
			set(Len(x.T))
		default:
			throwf("cap of %T", args[0])
		}
	case "append":
		set(e.appendVal(s, args[0], args[1]))
	case "copy":
		switch d := args[0].(type) {
		case *SliceV:
			src, ok := args[1].(*SliceV)
			if !ok {
				throwf("copy from %T", args[1])
			}
			n := d.Len
			if src.Len < n {
				n = src.Len
			}
			vals := make([]Value, n)
			for i := 0; i < n; i++ {
				vals[i] = s.load(&Ptr{Obj: src.Arr, Path: []int{src.Off + i}})
			}
			for i := 0; i < n; i++ {
				s.store(&Ptr{Obj: d.Arr, Path: []int{d.Off + i}}, vals[i])
			}
			set(MkI(int64(n)))
		default:
			throwf("copy into %T", args[0])
		}
	case "delete":
		m := args[0].(*MapRef)
		if m.Nil {
			set(nil)
			return nil
		}
		mo := s.load(&Ptr{Obj: m.Obj}).(*MapObj)
		var outs []Outcome
		miss := TTrue
		for i, en := range mo.E {
			eq := e.valueEq(s, en.K, args[1])
			if eq == TFalse {
				continue
			}
			ii := i
			outs = append(outs, Outcome{Cond: And(miss, eq), Do: func(st *State) {
				cur := st.load(&Ptr{Obj: m.Obj}).(*MapObj)
				var ne []MapEntry
				if cur.Open {
					// keep a tombstone: the unknown base content must not shine through again
					ne = append([]MapEntry(nil), cur.E...)
					ne[ii] = MapEntry{cur.E[ii].K, cur.E[ii].V, TFalse}
				} else {
					ne = append(append([]MapEntry(nil), cur.E[:ii]...), cur.E[ii+1:]...)
				}
				st.hset(m.Obj, &MapObj{E: ne, Open: cur.Open, Tag: cur.Tag, Src: cur.Src})
			}})
			miss = And(miss, Not(eq))
			if eq == TTrue {
				break
			}
		}
		if miss != TFalse {
			key := args[1]
			outs = append(outs, Outcome{Cond: miss, Do: func(st *State) {
				cur := st.load(&Ptr{Obj: m.Obj}).(*MapObj)
				if cur.Open {
					ne := append(append([]MapEntry(nil), cur.E...), MapEntry{key, nil, TFalse})
					st.hset(m.Obj, &MapObj{E: ne, Open: true, Tag: cur.Tag, Src: cur.Src})
				}
			}})
		}
		return e.applyOutcomes(s, fr, nil, outs)
	case "print", "println":
		set(nil)
	case "min", "max":
		a, b := args[0].(*Term), args[1].(*Term)
		if name == "min" {
			set(Ite(Lt(a, b), a, b))
		} else {
			set(Ite(Lt(a, b), b, a))
		}
	case "recover":
		set(&IfaceV{})
	case "ssa:wrapnilchk":
		p := args[0].(*Ptr)
		if p.Nil {
			panic(goPanic{"value method called via nil pointer"})
		}
		set(p)
	default:
		throwf("builtin %s", name)
	}
	return nil
}

func (e *Engine) appendVal(s *State, dst, src Value) Value {
	switch d := dst.(type) {
	case *BytesV:
		switch x := src.(type) {
		case *BytesV:
			if x.NilT == TTrue && d.NilT == TTrue {
				return d
			}
			return &BytesV{T: Concat(d.T, x.T), NilT: And(d.NilT, Eq(Len(x.T), MkI(0)))}
		case *Term: // append([]byte, string...)
			return &BytesV{T: Concat(d.T, x), NilT: And(d.NilT, Eq(Len(x), MkI(0)))}
		case *SliceV: // append([]byte, b1, b2) with explicit elements
			t := d.T
			for i := 0; i < x.Len; i++ {
				bv := s.load(&Ptr{Obj: x.Arr, Path: []int{x.Off + i}}).(*Term)
				t = Concat(t, FromCode(bv))
			}
			return &BytesV{T: t, NilT: MkBool(x.Len == 0 && d.NilT == TTrue)}
		}
		throwf("append bytes of %T", src)
	case *SliceV:
		var elems []Value
		switch x := src.(type) {
		case *SliceV:
			for i := 0; i < x.Len; i++ {
				elems = append(elems, s.load(&Ptr{Obj: x.Arr, Path: []int{x.Off + i}}))
			}
		default:
			throwf("append slice of %T", src)
		}
		if len(elems) == 0 {
			return d
		}
		if !d.Nil && d.Len+len(elems) <= d.Cap {
			// in place: this is Go's aliasing behaviour
			for i, v := range elems {
				s.store(&Ptr{Obj: d.Arr, Path: []int{d.Off + d.Len + i}}, v)
			}
			return &SliceV{Arr: d.Arr, Off: d.Off, Len: d.Len + len(elems), Cap: d.Cap}
		}
		// grow: new backing array (capacity: doubling like the runtime for small slices)
		nl := d.Len + len(elems)
		nc := d.Cap * 2
		if nc < nl {
			nc = nl
		}
		ne := make([]Value, nc)
		for i := 0; i < d.Len; i++ {
			ne[i] = s.load(&Ptr{Obj: d.Arr, Path: []int{d.Off + i}})
		}
		copy(ne[d.Len:], elems)
		var zero Value
		if len(elems) > 0 {
			zero = zeroLike(elems[0])
		}
		for i := nl; i < nc; i++ {
			ne[i] = zero
		}
		id := s.alloc(&ArrayV{ne})
		return &SliceV{Arr: id, Off: 0, Len: nl, Cap: nc}
	}
	throwf("append to %T", dst)
	return nil
}

func zeroLike(v Value) Value {
	switch x := v.(type) {
	case *Term:
		switch x.Sort {
		case SInt:
			return MkI(0)
		case SBool:
			return TFalse
		}
		return MkStr("")
	case *Ptr:
		return NilPtr
	case *StructV:
		f := make([]Value, len(x.F))
		for i := range f {
			f[i] = zeroLike(x.F[i])
		}
		return &StructV{f}
	case *BytesV:
		return &BytesV{T: MkStr(""), NilT: TTrue}
	case *SliceV:
		return &SliceV{Nil: true}
	case *IfaceV:
		return &IfaceV{}
	}
	return &PoisonV{fmt.Sprintf("zeroLike %T", v)}
}

// ---------- pure-callee merging

var mergeableFns = map[string]bool{}

func MarkMergeable(names ...string) {
	for _, n := range names {
		mergeableFns[n] = true
	}
}

func (e *Engine) mergeable(fn *ssa.Function) bool { return mergeableFns[fnKey(fn)] }

// callMerged runs the callee on a private worklist and joins all normally-returning paths into
// one result with ite terms. Paths that panic/abort/escape stay separate successor states.
func (e *Engine) callMerged(s *State, fr *Frame, fn *ssa.Function, args, bind []Value, res ssa.Value) []*State {
	base := s.clone()
	baseModel := s.model
	baseNext := s.NextObj
	depth := len(s.Frames)
	e.pushFrame(s, fn, args, bind, nil)
	s.top().Barrier = "merge"
	type fin struct {
		st  *State
		ret Value
	}
	var fins []fin
	var others []*State
	pcBase := pcLen(base)
	work := []*State{s}
	s.mergeDepth++
	base.mergeDepth = s.mergeDepth - 1
	for len(work) > 0 {
		w := work[len(work)-1]
		work = work[:len(work)-1]
		var succ []*State
		for w.Status == Running && !w.mergeDone && len(w.Frames) > depth {
			succ = e.stepGuard(w)
			if succ != nil {
				break
			}
		}
		if succ != nil {
			for i := len(succ) - 1; i >= 0; i-- {
				work = append(work, succ[i])
			}
			continue
		}
		if w.mergeDone {
			w.mergeDone = false
			fins = append(fins, fin{w, w.mergeRet})
			w.mergeRet = nil
			continue
		}
		others = append(others, w)
	}
	for _, f := range fins {
		f.st.mergeDepth--
	}
	for _, o := range others {
		o.mergeDepth--
	}
	e.mu.Lock()
	e.Merged[fnKey(fn)]++
	e.mu.Unlock()
	finish := func(st *State, v Value) {
		f := st.top()
		if res != nil {
			f.Locals[f.Info.idx[res]] = v
		}
		f.PC++
	}
	separate := func() []*State {
		out := others
		for _, f := range fins {
			finish(f.st, f.ret)
			out = append(out, f.st)
		}
		return nonNil(out)
	}
	if len(fins) <= 1 {
		return separate()
	}
	floor := 0
	for _, f := range fins {
		if f.st.NextObj > floor {
			floor = f.st.NextObj
		}
	}
	condOf := func(st *State) *Term {
		ts := st.pcTerms()
		return And(ts[pcBase:]...)
	}
	// greedy grouping: each finisher is merged into the first group it is compatible with
	type group struct {
		m     *State
		ret   Value
		conds []*Term
	}
	var groups []*group
	for _, f := range fins {
		c := condOf(f.st)
		placed := false
		for _, g := range groups {
			if !e.sameOldHeap(baseNext, g.m, f.st) {
				continue
			}
			save := g.m.NextObj
			if g.m.NextObj <= floor {
				g.m.NextObj = floor + 1
			}
			mc := &mergeCtx{e: e, m: g.m, floor: floor}
			// ite(c, f.ret, g.ret): f's cells live in f.st, g's in g.m
			mv, ok := mc.merge(c, f.st, f.ret, g.m, g.ret)
			if !ok {
				g.m.NextObj = save
				continue
			}
			g.ret = mv
			g.conds = append(g.conds, c)
			placed = true
			break
		}
		if !placed {
			groups = append(groups, &group{m: f.st, ret: f.ret, conds: []*Term{c}})
		}
	}
	out := others
	for _, g := range groups {
		if len(g.conds) > 1 {
			g.m.PC = base.PC
			g.m.addPC(Or(g.conds...))
		}
		// the model of the state before the call still satisfies the merged state if it satisfies the
		// (usually exhaustive) disjunction of the joined callee paths: no model is lost inside pure helpers
		if baseModel != nil && (g.m.model == nil || len(g.conds) > 1) {
			if modelSatisfies(baseModel, []*Term{Or(g.conds...)}) {
				g.m.model = baseModel
			}
		}
		finish(g.m, g.ret)
		out = append(out, g.m)
	}
	return nonNil(out)
}

func nonNil(ss []*State) []*State {
	if len(ss) == 0 {
		return []*State{}
	}
	return ss
}

// sameOldHeap: objects that existed before the call have identical values in a and b.
func (e *Engine) sameOldHeap(baseNext int, a, b *State) bool {
	for id, va := range a.own {
		if id > baseNext {
			continue
		}
		vb, _ := b.hget(id)
		if vb != va {
			return false
		}
	}
	for id, vb := range b.own {
		if id > baseNext {
			continue
		}
		va, _ := a.hget(id)
		if vb != va {
			return false
		}
	}
	return true
}

type mergeCtx struct {
	e     *Engine
	m     *State
	floor int
}

func (mc *mergeCtx) cell(st *State, id int) (Value, bool) {
	if id > mc.floor {
		return mc.m.hget(id)
	}
	return st.hget(id)
}

func init() {
	// pure helpers whose paths are joined into one ite-valued result (DESIGN 2.6 / 13.7)
	sdk := "github.com/cosmos/cosmos-sdk/types."
	MarkMergeable(sdk+"chopPrecisionAndRound", sdk+"chopPrecisionAndRoundUp", sdk+"chopPrecisionAndTruncate",
		"("+sdk+"Dec).Mul", "("+sdk+"Dec).Quo", "("+sdk+"Dec).QuoInt64", "("+sdk+"Dec).MulInt64", "("+sdk+"Dec).MulInt",
		"("+sdk+"Dec).QuoInt", "("+sdk+"Dec).TruncateInt", "("+sdk+"Dec).TruncateInt64", "("+sdk+"Dec).QuoTruncate", "("+sdk+"Dec).MulTruncate",
		"("+sdk+"Dec).RoundInt", "("+sdk+"Dec).RoundInt64", "("+sdk+"Dec).Ceil",
		"github.com/jackalLabs/canine-chain/v4/x/rns/keeper.GetCostOfName",
		"github.com/jackalLabs/canine-chain/v4/x/rns/keeper.GetNameAndTLD",
		"github.com/jackalLabs/canine-chain/v4/x/rns/keeper.GetSubdomain")
}

// merge builds ite(c, va, vb); pointers to fresh cells are merged by allocating a joined cell in m.
func (mc *mergeCtx) merge(c *Term, sa *State, va Value, sb *State, vb Value) (Value, bool) {
	switch x := va.(type) {
	case nil:
		return nil, vb == nil
	case *Term:
		y, ok := vb.(*Term)
		if !ok || x.Sort != y.Sort {
			return nil, false
		}
		return Ite(c, x, y), true
	case *StructV:
		y, ok := vb.(*StructV)
		if !ok || len(x.F) != len(y.F) {
			return nil, false
		}
		nf := make([]Value, len(x.F))
		for i := range x.F {
			v, ok := mc.merge(c, sa, x.F[i], sb, y.F[i])
			if !ok {
				return nil, false
			}
			nf[i] = v
		}
		return &StructV{nf}, true
	case *TupleV:
		y, ok := vb.(*TupleV)
		if !ok || len(x.E) != len(y.E) {
			return nil, false
		}
		nf := make([]Value, len(x.E))
		for i := range x.E {
			v, ok := mc.merge(c, sa, x.E[i], sb, y.E[i])
			if !ok {
				return nil, false
			}
			nf[i] = v
		}
		return &TupleV{nf}, true
	case *Ptr:
		y, ok := vb.(*Ptr)
		if !ok {
			return nil, false
		}
		if x.Nil || y.Nil {
			if x.Nil && y.Nil {
				return x, true
			}
			return nil, false
		}
		ca, ok1 := mc.cell(sa, x.Obj)
		cb, ok2 := mc.cell(sb, y.Obj)
		if !ok1 || !ok2 {
			return nil, false
		}
		if samePtr(x, y) && ca == cb {
			return x, true
		}
		if len(x.Path) != 0 || len(y.Path) != 0 {
			return nil, false
		}
		mv, ok := mc.merge(c, sa, ca, sb, cb)
		if !ok {
			return nil, false
		}
		id := mc.m.alloc(mv)
		return &Ptr{Obj: id}, true
	case *BigV:
		y, ok := vb.(*BigV)
		if !ok {
			return nil, false
		}
		return &BigV{Ite(c, x.T, y.T)}, true
	case *BytesV:
		y, ok := vb.(*BytesV)
		if !ok || x.Blob != nil || y.Blob != nil {
			return nil, false
		}
		return &BytesV{T: Ite(c, x.T, y.T), NilT: Ite(c, x.NilT, y.NilT)}, true
	case *IfaceV:
		y, ok := vb.(*IfaceV)
		if !ok {
			return nil, false
		}
		if x.T == nil && y.T == nil {
			return x, true
		}
		if x.T != nil && y.T != nil && x.V == y.V {
			return x, true
		}
		return nil, false
	case *TimeV:
		y, ok := vb.(*TimeV)
		if !ok {
			return nil, false
		}
		return &TimeV{Ite(c, x.NS, y.NS)}, true
	}
	if va == vb {
		return va, true
	}
	return nil, false
}
