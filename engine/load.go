package gosym

import (
	"fmt"
	"os"
	"path/filepath"
	"strings"

	"golang.org/x/tools/go/packages"
	"golang.org/x/tools/go/ssa"
	"golang.org/x/tools/go/ssa/ssautil"
)

type Loaded struct {
	Prog *ssa.Program
	Pkgs map[string]*ssa.Package // by import path
}

// BuildOverlay maps harness sources into the repository tree (no file in the repo is touched).
//   <hdir>/zzverif/common/*.go, <hdir>/zzverif/<mode>/*.go -> <repo>/zzverif/*.go
//   <hdir>/pkgs/<rel>/<f>.go                               -> <repo>/<rel>/zz_verif_<f>.go
// extra: "repoRelPath=replacementFile" pairs (mutants / candidate fixes).
func BuildOverlay(repo, hdir, mode string, extra []string) (map[string][]byte, map[string]string, error) {
	ov := map[string][]byte{}
	paths := map[string]string{}
	add := func(virt, real string) error {
		b, err := os.ReadFile(real)
		if err != nil {
			return err
		}
		ov[virt] = b
		paths[virt] = real
		return nil
	}
	for _, sub := range []string{"common", mode} {
		files, _ := filepath.Glob(filepath.Join(hdir, "zzverif", sub, "*.go"))
		for _, f := range files {
			if err := add(filepath.Join(repo, "zzverif", filepath.Base(f)), f); err != nil {
				return nil, nil, err
			}
		}
	}
	root := filepath.Join(hdir, "pkgs")
	err := filepath.Walk(root, func(p string, info os.FileInfo, err error) error {
		if err != nil || info.IsDir() || !strings.HasSuffix(p, ".go") {
			return nil
		}
		rel, _ := filepath.Rel(root, p)
		dir := filepath.Dir(rel)
		base := filepath.Base(rel)
		if strings.HasSuffix(base, "_native.go") && mode != "native" {
			return nil
		}
		if strings.HasSuffix(base, "_sym.go") && mode != "sym" {
			return nil
		}
		return add(filepath.Join(repo, dir, "zz_verif_"+base), p)
	})
	if err != nil {
		return nil, nil, err
	}
	for _, ex := range extra {
		kv := strings.SplitN(ex, "=", 2)
		if len(kv) != 2 {
			return nil, nil, fmt.Errorf("bad overlay spec %q", ex)
		}
		if err := add(filepath.Join(repo, kv[0]), kv[1]); err != nil {
			return nil, nil, err
		}
	}
	return ov, paths, nil
}

func Load(repo string, overlay map[string][]byte, patterns []string) (*Loaded, error) {
	cfg := &packages.Config{Mode: packages.LoadAllSyntax, Dir: repo, Overlay: overlay,
		Env: append(os.Environ(), "GOFLAGS=-mod=mod", "GOPROXY=off", "GOSUMDB=off", "GOTOOLCHAIN=local")}
	pkgs, err := packages.Load(cfg, patterns...)
	if err != nil {
		return nil, err
	}
	var errs []string
	packages.Visit(pkgs, nil, func(p *packages.Package) {
		for _, e := range p.Errors {
			if strings.Contains(p.PkgPath, "jackalLabs") {
				errs = append(errs, e.Error())
			}
		}
	})
	if len(errs) > 0 {
		return nil, fmt.Errorf("load errors:\n%s", strings.Join(errs, "\n"))
	}
	prog, spkgs := ssautil.AllPackages(pkgs, ssa.InstantiateGenerics)
	l := &Loaded{Prog: prog, Pkgs: map[string]*ssa.Package{}}
	for i, sp := range spkgs {
		if sp != nil {
			sp.Build()
			l.Pkgs[pkgs[i].PkgPath] = sp
		}
	}
	return l, nil
}
