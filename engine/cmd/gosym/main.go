package main

import (
	"encoding/json"
	"flag"
	"fmt"
	"os"
	"sort"
	"strings"
	"sync"
	"time"

	"gosym"

	"golang.org/x/tools/go/ssa"
)

type HarnessResult struct {
	Harness     string                     `json:"harness"`
	Pkg         string                     `json:"pkg"`
	WallS       float64                    `json:"wall_s"`
	Paths       map[string]int             `json:"paths"`
	Steps       int64                      `json:"ssa_instructions"`
	Obligations []gosym.ObResult           `json:"obligations"`
	Covers      map[string]int             `json:"covers"`
	CoverModels map[string]*gosym.Scenario `json:"cover_models"`
	Functions   []string                   `json:"functions_encoded"`
	Intrinsics  []string                   `json:"intrinsics_used"`
	Unsupported map[string]int             `json:"unsupported"`
	Panics      map[string]int             `json:"panic_sites"`
	Overflow    map[string]int             `json:"overflow_sites"`
	Merged      map[string]int             `json:"merged_callees"`
	Bounds      map[string]int             `json:"bounds"`
	FeasUnknown int                        `json:"feasibility_unknown"`
	Solver      map[string]interface{}     `json:"solver"`
	Error       string                     `json:"error,omitempty"`
}

func main() {
	repo := flag.String("repo", "/repo", "repository root")
	hdir := flag.String("harness", "/verif/harness", "harness directory")
	pkgsF := flag.String("pkgs", "", "comma separated package patterns (relative to repo) containing harness functions")
	fnsF := flag.String("fn", "", "comma separated harness function names or prefixes ending with *")
	out := flag.String("out", "", "output JSON file")
	jobs := flag.Int("j", 4, "parallel harnesses")
	workers := flag.Int("w", 8, "parallel path workers per harness")
	verbose := flag.Bool("v", false, "verbose")
	feasMs := flag.Int("feas-ms", 5000, "feasibility query cap")
	assertMs := flag.Int("assert-ms", 60000, "obligation query cap")
	maxPaths := flag.Int("max-paths", 20000, "path cap")
	dump := flag.String("dump", "", "dump queries into directory")
	only := flag.String("solver", "", "use only this solver")
	mapAll := flag.Bool("map-orders", false, "explore Go map iteration orders")
	tier := flag.String("tier", "quick", "quick or thorough (harnesses may widen bounds)")
	var extra multi
	flag.Var(&extra, "overlay", "repoRelPath=file (replace a repo file; mutants and candidate fixes)")
	flag.Parse()

	t0 := time.Now()
	ov, _, err := gosym.BuildOverlay(*repo, *hdir, "sym", extra)
	if err != nil {
		fatal(err)
	}
	patterns := strings.Split(*pkgsF, ",")
	ld, err := gosym.Load(*repo, ov, patterns)
	if err != nil {
		fatal(err)
	}
	fmt.Fprintf(os.Stderr, "loaded in %.1fs\n", time.Since(t0).Seconds())
	gosym.MapOrderAll = *mapAll
	gosym.ThoroughTier = *tier == "thorough"
	want := strings.Split(*fnsF, ",")
	type job struct {
		pkg *ssa.Package
		fn  *ssa.Function
	}
	var js []job
	var pkgPaths []string
	for p := range ld.Pkgs {
		pkgPaths = append(pkgPaths, p)
	}
	sort.Strings(pkgPaths)
	for _, pp := range pkgPaths {
		sp := ld.Pkgs[pp]
		var names []string
		for n := range sp.Members {
			names = append(names, n)
		}
		sort.Strings(names)
		for _, n := range names {
			f, ok := sp.Members[n].(*ssa.Function)
			if !ok {
				continue
			}
			for _, w := range want {
				if w == n || strings.HasSuffix(w, "*") && strings.HasPrefix(n, strings.TrimSuffix(w, "*")) {
					js = append(js, job{sp, f})
				}
			}
		}
	}
	if len(js) == 0 {
		fatal(fmt.Errorf("no harness functions matched %v", want))
	}
	results := make([]*HarnessResult, len(js))
	var wg sync.WaitGroup
	sem := make(chan struct{}, *jobs)
	for i, j := range js {
		wg.Add(1)
		go func(i int, j job) {
			defer wg.Done()
			sem <- struct{}{}
			defer func() { <-sem }()
			results[i] = runOne(ld, j.pkg, j.fn, gosym.Config{FeasMs: *feasMs, AssertMs: *assertMs, Verbose: *verbose, MaxPaths: *maxPaths}, *dump, *only, *workers)
		}(i, j)
	}
	wg.Wait()
	enc, _ := json.MarshalIndent(map[string]interface{}{"results": results, "wall_s": time.Since(t0).Seconds()}, "", " ")
	if *out != "" {
		os.WriteFile(*out, enc, 0o644)
	} else {
		os.Stdout.Write(enc)
	}
	for _, r := range results {
		nd, nv, nu := 0, 0, 0
		for _, o := range r.Obligations {
			switch o.Verdict {
			case "discharged":
				nd++
			case "violated":
				nv++
			default:
				nu++
			}
		}
		fmt.Fprintf(os.Stderr, "%s: %.1fs paths=%v obligations=%d discharged=%d violated=%d unknown=%d covers=%v unsupported=%d %s\n",
			r.Harness, r.WallS, r.Paths, len(r.Obligations), nd, nv, nu, r.Covers, len(r.Unsupported), r.Error)
		for k, v := range r.Unsupported {
			fmt.Fprintf(os.Stderr, "   UNSUPPORTED x%d: %s\n", v, k)
		}
		for k, v := range r.Panics {
			fmt.Fprintf(os.Stderr, "   PANIC x%d: %s\n", v, k)
		}
	}
}

type multi []string

func (m *multi) String() string     { return strings.Join(*m, ",") }
func (m *multi) Set(s string) error { *m = append(*m, s); return nil }

func fatal(err error) {
	fmt.Fprintln(os.Stderr, "gosym:", err)
	os.Exit(2)
}

func runOne(ld *gosym.Loaded, pkg *ssa.Package, fn *ssa.Function, cfg gosym.Config, dump, only string, workers int) (res *HarnessResult) {
	t0 := time.Now()
	e := gosym.NewEngine(ld.Prog, cfg)
	e.Harness = fn.Name()
	e.DumpTo = dump
	e.OnlySolver = only
	e.Workers = workers
	e.Log = func(s string) { fmt.Fprintln(os.Stderr, fn.Name()+":"+s) }
	res = &HarnessResult{Harness: fn.Name(), Pkg: pkg.Pkg.Path()}
	defer e.Close()
	defer func() {
		if r := recover(); r != nil {
			res.Error = fmt.Sprint("engine crash: ", r)
			panic(r)
		}
	}()
	st := e.NewState()
	e.RunHarness(st, fn)
	res.WallS = time.Since(t0).Seconds()
	res.Paths = e.Paths
	res.Steps = e.Steps
	res.Obligations = e.Obs
	res.Covers = e.Covers
	res.CoverModels = e.CoverModels
	for f := range e.FnsExecuted {
		res.Functions = append(res.Functions, f)
	}
	sort.Strings(res.Functions)
	for f := range e.IntrUsed {
		res.Intrinsics = append(res.Intrinsics, f)
	}
	sort.Strings(res.Intrinsics)
	res.Unsupported = e.Unsupp
	res.Panics = e.PanicSites
	res.Overflow = e.Overflow
	res.Merged = e.Merged
	if os.Getenv("GOSYM_FORKS") != "" {
		for k, v := range e.ForkSites {
			fmt.Fprintf(os.Stderr, "FORK %d %s\n", v, k)
		}
	}
	res.Bounds = e.Bounds
	res.FeasUnknown = e.FeasUnknown
	res.Solver = e.SolverStats()
	return res
}
