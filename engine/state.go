package gosym

import (
	"fmt"
	"go/types"

	"golang.org/x/tools/go/ssa"
)

type Status int

const (
	Running Status = iota
	Done
	Panicked
	Unsupported
	Infeasible // an Assume failed on this path
	Unwound    // loop bound hit
)

func (s Status) String() string {
	return [...]string{"running", "done", "panic", "unsupported", "infeasible", "unwind"}[s]
}

type fnInfo struct {
	idx map[ssa.Value]int
	n   int
}

type deferred struct {
	fn   Value
	args []Value
	// invoke
	method *types.Func
}

type Frame struct {
	Fn      *ssa.Function
	Info    *fnInfo
	Block   *ssa.BasicBlock
	Prev    *ssa.BasicBlock
	PC      int
	Locals  []Value
	Defers  []deferred
	RetTo   ssa.Value // value in the caller frame receiving the result (nil: discarded)
	Barrier string    // "", "init", "try", "deliver", "merge", "top"
	Snap    *World    // world snapshot for "deliver"
	Visits  map[*ssa.BasicBlock]int
	InitPkg *ssa.Package
	// for intrinsic continuation: called when this frame returns (result passed), may return value to store in caller
	OnRet func(st *State, ret Value) Value
}

type pcNode struct {
	t    *Term
	next *pcNode
	n    int
}

type heapLayer struct {
	m      map[int]Value
	parent *heapLayer
	depth  int
}

type State struct {
	Frames   []*Frame
	layer    *heapLayer
	own      map[int]Value
	NextObj  int
	PC       *pcNode
	W        *World
	Status   Status
	Msg      string
	InitDone map[*ssa.Package]bool
	InitMode int
	Steps    int
	Forks    int
	ID       int
	Trace    []string // recent call trace for diagnostics
	mergeDone bool
	mergeDepth int
	pf        *Portfolio
	model     *CachedModel // satisfies the whole path condition (nil: unknown)
	mergeRet  Value
}

func (st *State) top() *Frame { return st.Frames[len(st.Frames)-1] }

func (st *State) pcTerms() []*Term {
	var out []*Term
	for n := st.PC; n != nil; n = n.next {
		out = append(out, n.t)
	}
	// reverse to chronological order
	for i, j := 0, len(out)-1; i < j; i, j = i+1, j-1 {
		out[i], out[j] = out[j], out[i]
	}
	return out
}

func (st *State) addPC(t *Term) {
	if t == TTrue {
		return
	}
	if t.Op == "and" {
		for _, a := range t.Args {
			st.addPC(a)
		}
		return
	}
	n := 1
	if st.PC != nil {
		n = st.PC.n + 1
	}
	st.PC = &pcNode{t, st.PC, n}
}

func (st *State) hget(id int) (Value, bool) {
	if v, ok := st.own[id]; ok {
		return v, true
	}
	for l := st.layer; l != nil; l = l.parent {
		if v, ok := l.m[id]; ok {
			return v, true
		}
	}
	return nil, false
}

func (st *State) hset(id int, v Value) { st.own[id] = v }

func (st *State) alloc(v Value) int {
	st.NextObj++
	id := st.NextObj
	st.own[id] = v
	return id
}

// freeze moves own into a shared layer (called before cloning).
func (st *State) freeze() {
	if len(st.own) == 0 {
		return
	}
	d := 0
	if st.layer != nil {
		d = st.layer.depth + 1
	}
	st.layer = &heapLayer{m: st.own, parent: st.layer, depth: d}
	st.own = map[int]Value{}
	if d > 24 {
		flat := map[int]Value{}
		var ls []*heapLayer
		for l := st.layer; l != nil; l = l.parent {
			ls = append(ls, l)
		}
		for i := len(ls) - 1; i >= 0; i-- {
			for k, v := range ls[i].m {
				flat[k] = v
			}
		}
		st.layer = &heapLayer{m: flat, depth: 0}
	}
}

func (st *State) clone() *State {
	st.freeze()
	n := *st
	n.own = map[int]Value{}
	n.Frames = make([]*Frame, len(st.Frames))
	for i, f := range st.Frames {
		nf := *f
		nf.Locals = append([]Value(nil), f.Locals...)
		nf.Defers = append([]deferred(nil), f.Defers...)
		if f.Visits != nil {
			nf.Visits = make(map[*ssa.BasicBlock]int, len(f.Visits))
			for k, v := range f.Visits {
				nf.Visits[k] = v
			}
		}
		n.Frames[i] = &nf
	}
	n.InitDone = make(map[*ssa.Package]bool, len(st.InitDone))
	for k, v := range st.InitDone {
		n.InitDone[k] = v
	}
	n.W = st.W.clone()
	n.Trace = append([]string(nil), st.Trace...)
	return &n
}

// ---------- heap access through pointers

type unsup struct{ msg string }
type goPanic struct{ msg string }

func throwf(format string, a ...interface{}) { panic(unsup{fmt.Sprintf(format, a...)}) }

func (st *State) load(p *Ptr) Value {
	if p.Nil {
		panic(goPanic{"nil pointer dereference"})
	}
	v, ok := st.hget(p.Obj)
	if !ok {
		throwf("dangling object o%d", p.Obj)
	}
	for _, i := range p.Path {
		v = subValue(v, i)
	}
	return v
}

func subValue(v Value, i int) Value {
	switch x := v.(type) {
	case *StructV:
		return x.F[i]
	case *ArrayV:
		if i < 0 || i >= len(x.E) {
			panic(goPanic{"index out of range"})
		}
		return x.E[i]
	case *BytesV:
		return ToCode(StrAt(x.T, MkI(int64(i))))
	case *TupleV:
		return x.E[i]
	}
	throwf("subValue of %T", v)
	return nil
}

func (st *State) store(p *Ptr, nv Value) {
	if p.Nil {
		panic(goPanic{"nil pointer dereference (store)"})
	}
	root, ok := st.hget(p.Obj)
	if !ok {
		throwf("dangling object o%d", p.Obj)
	}
	st.hset(p.Obj, setPath(root, p.Path, nv))
}

func setPath(v Value, path []int, nv Value) Value {
	if len(path) == 0 {
		return nv
	}
	i := path[0]
	switch x := v.(type) {
	case *StructV:
		nf := append([]Value(nil), x.F...)
		nf[i] = setPath(x.F[i], path[1:], nv)
		return &StructV{nf}
	case *ArrayV:
		if i < 0 || i >= len(x.E) {
			panic(goPanic{"index out of range"})
		}
		ne := append([]Value(nil), x.E...)
		ne[i] = setPath(x.E[i], path[1:], nv)
		return &ArrayV{ne}
	case *BytesV:
		// byte store into a byte array/blob at concrete index
		t, ok := nv.(*Term)
		if !ok || len(path) != 1 {
			throwf("byte store of %T", nv)
		}
		n := Len(x.T)
		pre := Substr(x.T, MkI(0), MkI(int64(i)))
		post := Substr(x.T, MkI(int64(i+1)), Sub(n, MkI(int64(i+1))))
		return &BytesV{T: Concat(pre, FromCode(t), post), NilT: x.NilT}
	}
	throwf("setPath into %T", v)
	return nil
}

func newFnInfo(fn *ssa.Function) *fnInfo {
	fi := &fnInfo{idx: map[ssa.Value]int{}}
	add := func(v ssa.Value) {
		fi.idx[v] = fi.n
		fi.n++
	}
	for _, p := range fn.Params {
		add(p)
	}
	for _, fv := range fn.FreeVars {
		add(fv)
	}
	for _, b := range fn.Blocks {
		for _, in := range b.Instrs {
			if v, ok := in.(ssa.Value); ok {
				add(v)
			}
		}
	}
	return fi
}
