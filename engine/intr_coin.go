package gosym

import (
	"math/big"
	"regexp"
	"strings"
)

var denomRe = regexp.MustCompile(`^[a-zA-Z][a-zA-Z0-9/:._-]{2,127}$`)

func denomOK(d *Term) *Term {
	if d.IsConst() {
		return MkBool(denomRe.MatchString(d.SV))
	}
	return InRe(d, reDenom, denomRe.MatchString)
}

const reDenom = `(re.++ (re.union (re.range "a" "z") (re.range "A" "Z")) ((_ re.loop 2 127) (re.union (re.range "a" "z") (re.range "A" "Z") (re.range "0" "9") (str.to_re "/") (str.to_re ":") (str.to_re ".") (str.to_re "_") (str.to_re "-"))))`

func mkCoin(s *State, denom, amt *Term) Value {
	return &StructV{F: []Value{denom, &StructV{F: []Value{newBig(s, amt)}}}}
}

func coinParts(s *State, v Value) (denom, amt *Term) {
	c := v.(*StructV)
	denom = c.F[0].(*Term)
	p := c.F[1].(*StructV).F[0].(*Ptr)
	if p.Nil {
		panic(goPanic{"nil Int in Coin"})
	}
	amt = s.load(p).(*BigV).T
	return
}

func init() {
	reg := RegisterIntrinsic
	// A-COINSTR: a string parses as a coin iff it is <decimal amount><denom> (canonical spelling)
	DeclareUF("coinok", []Sort{SStr}, SBool, func(a *Term) []*Term {
		s := a.Args[0]
		amt, d := App("coin_amt", s), App("coin_denom", s)
		return []*Term{Implies(a, And(Le(MkI(0), amt), denomOK(d), Eq(s, Concat(FromInt(amt), d))))}
	})
	DeclareUF("coin_denom", []Sort{SStr}, SStr, nil)
	DeclareUF("coin_amt", []Sort{SStr}, SInt, nil)
	DeclareUF("coinstr", []Sort{SInt, SStr}, SStr, func(a *Term) []*Term {
		amt, d := a.Args[0], a.Args[1]
		// Coin.String() is always <amount><denom>; it parses back iff the denom is valid and amount >= 0
		return []*Term{Implies(Le(MkI(0), amt), Eq(a, Concat(FromInt(amt), d))),
			Implies(Lt(amt, MkI(0)), Eq(a, Concat(MkStr("-"), FromInt(Neg(amt)), d))),
			Implies(And(Le(MkI(0), amt), denomOK(d)),
				And(App("coinok", a), Eq(App("coin_denom", a), d), Eq(App("coin_amt", a), amt))),
			Implies(Not(denomOK(d)), Not(App("coinok", a)))}
	})
	reg(sdkT+".ValidateDenom", func(c *CallCtx, a []Value) []Outcome {
		ok := denomOK(a[0].(*Term))
		return []Outcome{{Cond: ok, Ret: &IfaceV{}}, {Cond: Not(ok), Ret: newErr("invalid denom", nil)}}
	})
	reg(sdkT+".ParseCoinNormalized", func(c *CallCtx, a []Value) []Outcome {
		s := a[0].(*Term)
		ok := App("coinok", s)
		if s.Op == "uf" && s.SV == "coinstr" {
			ok = And(Le(MkI(0), s.Args[0]), denomOK(s.Args[1]))
		}
		res := c.Res
		return []Outcome{
			{Cond: ok, Do: func(st *State) {
				var d, am *Term
				if s.Op == "uf" && s.SV == "coinstr" {
					d, am = s.Args[1], s.Args[0]
				} else {
					d, am = App("coin_denom", s), App("coin_amt", s)
				}
				f := st.top()
				if res != nil {
					f.Locals[f.Info.idx[res]] = tuple(mkCoin(st, d, am), &IfaceV{})
				}
			}},
			{Cond: Not(ok), Do: func(st *State) {
				f := st.top()
				if res != nil {
					f.Locals[f.Info.idx[res]] = tuple(mkCoin(st, MkStr(""), MkI(0)), newErr("invalid coin", nil))
				}
			}},
		}
	})
	// ParseCoinsNormalized under A-COINS1: the string is a single canonical coin or does not parse
	reg(sdkT+".ParseCoinsNormalized", func(c *CallCtx, a []Value) []Outcome {
		s := a[0].(*Term)
		var ok, d, am *Term
		if s.Op == "uf" && s.SV == "coinstr" {
			d, am = s.Args[1], s.Args[0]
			ok = And(Le(MkI(0), am), denomOK(d))
		} else {
			ok, d, am = App("coinok", s), App("coin_denom", s), App("coin_amt", s)
		}
		res := c.Res
		setRes := func(st *State, v Value) {
			if res != nil {
				f := st.top()
				f.Locals[f.Info.idx[res]] = v
			}
		}
		empty := Eq(Len(s), MkI(0))
		return []Outcome{
			{Cond: And(ok, Lt(MkI(0), am)), Do: func(st *State) {
				id := st.alloc(&ArrayV{[]Value{mkCoin(st, d, am)}})
				setRes(st, tuple(&SliceV{Arr: id, Len: 1, Cap: 1}, &IfaceV{}))
			}},
			{Cond: Or(And(ok, Eq(am, MkI(0))), empty), Do: func(st *State) {
				id := st.alloc(&ArrayV{[]Value{}})
				setRes(st, tuple(&SliceV{Arr: id, Len: 0, Cap: 0}, &IfaceV{}))
			}},
			{Cond: And(Not(ok), Not(empty)), Do: func(st *State) {
				setRes(st, tuple(&SliceV{Nil: true}, newErr("invalid coins", nil)))
			}},
		}
	})
	reg("("+sdkT+".Coin).String", func(c *CallCtx, a []Value) []Outcome {
		d, am := coinParts(c.S, a[0])
		return ret1(App("coinstr", am, d))
	})
	reg("("+sdkT+".Coins).String", func(c *CallCtx, a []Value) []Outcome {
		sl := a[0].(*SliceV)
		if sl.Len == 0 {
			return ret1(MkStr(""))
		}
		var ps []*Term
		for i := 0; i < sl.Len; i++ {
			d, am := coinParts(c.S, c.S.load(&Ptr{Obj: sl.Arr, Path: []int{sl.Off + i}}))
			if i > 0 {
				ps = append(ps, MkStr(","))
			}
			ps = append(ps, App("coinstr", am, d))
		}
		return ret1(Concat(ps...))
	})
	// NewDecFromStr: exact for constant text, an arbitrary Dec (or an error) for symbolic text
	mkDec := func(st *State, t *Term) Value { return &StructV{F: []Value{newBig(st, t)}} }
	reg(sdkT+".NewDecFromStr", func(c *CallCtx, a []Value) []Outcome {
		s := a[0].(*Term)
		res := c.Res
		setRes := func(st *State, v Value) {
			if res != nil {
				f := st.top()
				f.Locals[f.Info.idx[res]] = v
			}
		}
		if s.IsConst() {
			v, ok := parseDecConst(s.SV)
			if !ok {
				return ret1(tuple(mkDec(c.S, MkI(0)), newErr("invalid decimal", nil)))
			}
			return ret1(tuple(mkDec(c.S, MkInt(v)), &IfaceV{}))
		}
		key := "decstr:" + s.String()
		var val, bad *Term
		if g, ok := c.S.W.Ghost[key]; ok {
			val, bad = g.(*TupleV).E[0].(*Term), g.(*TupleV).E[1].(*Term)
		} else {
			val, bad = FreshVar("decfromstr", SInt), FreshVar("decfromstr.err", SBool)
			c.S.W.Ghost[key] = tuple(val, bad)
			c.S.W.Nondet = append(c.S.W.Nondet, NondetEntry{Tag: "env.decfromstr." + sanitize(s.String()), T: val, Kind: "int"})
		}
		return []Outcome{
			{Cond: Not(bad), Do: func(st *State) { setRes(st, tuple(mkDec(st, val), &IfaceV{})) }},
			{Cond: bad, Do: func(st *State) { setRes(st, tuple(mkDec(st, MkI(0)), newErr("invalid decimal", nil))) }},
		}
	})
	reg("("+sdkT+".Dec).String", func(c *CallCtx, a []Value) []Outcome { return ret1(FreshVar("decstr", SStr)) })
	reg("("+sdkT+".Int).String", func(c *CallCtx, a []Value) []Outcome {
		p := a[0].(*StructV).F[0].(*Ptr)
		if p.Nil {
			return ret1(MkStr("<nil>"))
		}
		return ret1(decT(c.S.load(p).(*BigV).T))
	})
	reg("("+sdkT+".Dec).MustFloat64", func(c *CallCtx, a []Value) []Outcome { return ret1(&FloatV{F: 0}) })
	// regexp objects created during package init
	reg("regexp.MustCompile", func(c *CallCtx, a []Value) []Outcome {
		p := a[0].(*Term)
		if !p.IsConst() {
			throwf("regexp.MustCompile symbolic")
		}
		id := c.S.alloc(&OpaqueV{Kind: "regexp", Data: p.SV})
		return ret1(&Ptr{Obj: id})
	})
	reg("(*regexp.Regexp).MatchString", func(c *CallCtx, a []Value) []Outcome {
		pat := c.S.load(a[0].(*Ptr)).(*OpaqueV).Data.(string)
		f := intrinsics["regexp.MatchString"]
		outs := f(c, []Value{MkStr(pat), a[1]})
		// MatchString on a compiled regexp returns just the bool
		for i := range outs {
			if t, ok := outs[i].Ret.(*TupleV); ok {
				outs[i].Ret = t.E[0]
			}
		}
		return outs
	})
}


// parseDecConst parses a decimal literal like sdk.NewDecFromStr (at most 18 fractional digits).
func parseDecConst(str string) (*big.Int, bool) {
	neg := false
	if len(str) > 0 && str[0] == '-' {
		neg = true
		str = str[1:]
	}
	if str == "" {
		return nil, false
	}
	intPart, frac := str, ""
	if i := strings.IndexByte(str, '.'); i >= 0 {
		intPart, frac = str[:i], str[i+1:]
		if frac == "" || strings.Contains(frac, ".") {
			return nil, false
		}
	}
	if len(frac) > 18 {
		return nil, false
	}
	for len(frac) < 18 {
		frac += "0"
	}
	v, ok := new(big.Int).SetString(intPart+frac, 10)
	if !ok {
		return nil, false
	}
	if neg {
		v.Neg(v)
	}
	return v, true
}
