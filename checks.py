# Registry of checks: property id -> harness groups, expected cover points, stated bounds and assumptions.
A_COMMON = [
    "A-STRLEN: every string/byte slice is shorter than 2^31 bytes",
    "trusted base: go/packages+go/ssa (x/tools v0.29.0), gosym and its term simplifier, the model library, z3 5.1.0 (z3-new), cvc5 1.0.x",
]
A_STORE = [
    "A-PROTO: gogoproto Marshal/Unmarshal is a faithful round trip per record type",
    "A-ITER: a prefix iterator yields the entries present at creation in ascending key order",
    "A-ORDER: the order of symbolic strings is an arbitrary strict total order (over-approximation)",
    "A-WF: open-world records are well-formed as stated in the harness (record key = key function of its fields)",
]
A_BANK = [
    "A-BANK: x/bank behaves as zzverif.Bank (all-or-nothing sends; insufficient funds, invalid coins and blocked recipients are the only failures; supply changes only by mint/burn); initial balances in [0, 2^128)",
    "A-B32: bech32 decode(encode(b)) = b; valid account strings have prefix jkl1 and are 42 (20-byte address) or 62 (32-byte address) characters long (A-B32-LEN); encode(decode(s)) = s is NOT assumed",
    "A-ATOMIC: a message that returns an error or panics leaves no state change (zzverif.Deliver)",
]

CHECKS = {
    "C02": {
        "groups": [{"pkgs": "./x/storage/types", "fns": ["VH_C02_*"]}],
        "covers": ["C02/window-reached"],
        "assumptions": A_COMMON,
    },
    "C01": {
        "groups": [{"pkgs": "./x/storage/keeper", "fns": ["VH_C01_*"], "opts": {"j": 1, "w": 14}}],
        "covers": ["C01/proof-accepted", "C01/proof-rejected"],
        "conformance_skip": ["C01/proof-accepted"],  # reachable only under the VerifyProof cut, which the native replay cannot apply
        "bounds": {"provers listed on the file": 2},
        "assumptions": A_COMMON + A_STORE + A_BANK + ["cut: UnifiedFile.VerifyProof returns an arbitrary boolean in the contract harness (its Merkle verification is a separate kernel)",
                       "cut: UnifiedFile.ProvenThisBlock (selects a log line only) returns an arbitrary boolean",
                       "WF (C17): a listed prover has a proof record; ProofInterval > 1"],
    },
    "C03": {
        "groups": [{"pkgs": "./x/storage/keeper", "fns": ["VH_C03_*"], "opts": {"j": 1, "w": 14}}],
        "covers": ["C03/reward-block-done"],
        "bounds": {"files": 1, "provers per file": 3, "denominations": 1, "released per denomination": "<= 10^17", "file size": "[1, 2^40]"},
        "assumptions": A_COMMON + A_STORE + A_BANK + ["A-B32", "cut: pullTokensFromGauges returns an arbitrary amount C credited to the module account (C12 covers the real gauges)",
                       "WF (C17): listed provers are distinct and each has a proof record and a provider record",
                       "quick tier: list position and address order of the provers coincide"],
    },
    "C04": {
        "groups": [{"pkgs": "./x/storage/keeper", "fns": ["VH_C04_share_kernel", "VH_C04_buy_fresh"], "opts": {"j": 2, "w": 8}},
                   {"pkgs": "./x/storage/keeper", "fns": ["VH_C04_buy_plan", "VH_C04_buy_names"], "opts": {"j": 2, "w": 8}, "thorough_only": True}],
        "covers": ["C04/share-kernel-reached", "C04/buy-succeeds", "C04/buy-fails", "C04/buy-referred"],
        "bounds": {"days": 100000, "ratio grid quick": "{25,40}^2", "ratio grid thorough": "{0,10,25,40,60}^2 (the share arithmetic itself is proved for every whole percentage by the kernel)"},
        "assumptions": A_COMMON + A_STORE + A_BANK + ["cut: Keeper.GetStorageCost is replaced by an arbitrary non-negative amount (the purchase is charged whatever the chain's price function returns)",
                                                      "params satisfy the module's validators; ReferralCommission + PolRatio <= 100"],
        "outside": ["durations above 100000 days (time.Duration wraps beyond ~106751 days)", "price fairness (only consistency with the chain's own price function)"],
    },
    "C05": {
        "groups": [{"pkgs": "./x/storage/keeper", "fns": ["VH_C05_*"], "opts": {"j": 2, "w": 8}},
                   {"pkgs": "./x/jklmint/keeper", "fns": ["VH_C05_*"], "opts": {"j": 1, "w": 8}}],
        "covers": ["C05/reward-block-reached", "C05/reward-gate-reached", "C05/jklmint-beginblock-reached"],
        "bounds": {"files": 1, "provers": "1 (quick) / 2 (thorough)", "file size": "classes {0,-1,-5000,2^62,2^63-1,-2^63} and symbolic [1,2^40]; replication = prover count bound"},
        "assumptions": A_COMMON + A_STORE + A_BANK + ["params satisfy the modules' validators (executed)",
                       "cut: the gauge payout inside the reward block is an arbitrary amount (the real gauge code is shown panic-free by C12/pull-never-panics under the gauge invariant)"],
        "explanation": "BeginBlock of storage (RunRewardBlock) and jklmint (BlockMint) executed from their real code; the BeginBlock/EndBlock methods of filetree, notifications, oracle and rns have empty bodies (x/*/module.go) and EndBlock of storage and jklmint return an empty slice",
        "outside": ["BeginBlock/EndBlock of cosmos-sdk, ibc-go and wasmd modules, the ante handler, baseapp", "states larger than the bounds"],
    },
    "C07": {
        "groups": [{"pkgs": "./x/storage/keeper", "fns": ["VH_C07_*"], "opts": {"j": 3, "w": 5}}],
        "covers": ["C07/post-succeeds", "C07/post-fails", "C07/plan-post-succeeds", "C07/pay-once-post-succeeds", "C07/delete-removes-a-plan-paid-file", "C07/drop-removes-a-plan-paid-file"],
        "bounds": {"steps": "one step (PostFile / DeleteFile / reward-block drop) from an arbitrary well-formed state, observed at an arbitrary account and an arbitrary file key; histories of any length follow by induction on used = sum of footprints",
                   "provers listed on a file": "1 (removal steps), 0 (posting, where prover lists play no part)",
                   "FileSize x MaxProofs": "MaxProofs in {1,3,2^62} x any int64 FileSize (quick); thorough adds MaxProofs in {2,5,2^31,2^63-1} and FileSize in {1,1000,2^40,2^62,2^62+1,2^63-1} x any int64 MaxProofs",
                   "pay-once posts": "ReferralCommission = PolRatio = 25, no gauge record with the derived id yet"},
        "assumptions": A_COMMON + A_STORE + A_BANK + ["inductive hypothesis: 0 <= SpaceUsed <= SpaceAvailable on the records read, and a live plan-paid file's footprint is included in its owner's SpaceUsed",
                       "cut: Keeper.GetStorageCostKbs returns an arbitrary non-negative amount (pricing is C04's subject)"],
        "outside": ["BuyStorage/UpgradeStorage carry SpaceUsed and refuse to shrink below it (asserted in C04's harness family, not here)", "genesis import of inconsistent payment records"],
    },
    "C08": {
        "groups": [{"pkgs": "./x/rns/keeper", "fns": ["VH_C08_*"]}],
        "covers": ["C08/buy-succeeds", "C08/buy-fails", "C08/buy-ownership-moved"],
        "assumptions": A_COMMON + A_STORE + A_BANK + ["A-COINSTR: ParseCoinNormalized(Coin.String()) returns the coin"],
    },
    "C09": {
        "groups": [{"pkgs": "./x/rns/keeper", "fns": ["VH_C09_*"]}],
        "covers": ["C09/bid-succeeds", "C09/cancel-succeeds", "C09/accept-succeeds", "C09/register-buy-succeeds"],
        "assumptions": A_COMMON + A_STORE + A_BANK + ["A-COINS1: a stored price string is a single canonical coin (written from Coin.String()) or does not parse"],
    },
    "C14": {
        "groups": [{"pkgs": "./x/storage/keeper", "fns": ["VH_C14_attest", "VH_C14_report"], "opts": {"j": 2, "w": 7}}],
        "covers": ["C14/attest-acts", "C14/attest-recorded-below-quorum", "C14/attest-by-unlisted-signer", "C14/report-acts", "C14/report-recorded-below-quorum", "C14/report-without-effect"],
        "bounds": {"step": "one attest / report signature from an arbitrary well-formed state (any form content, flags, signer, minimum); multisets and orders of signatures of any length follow by induction on the rule 'a flag is set only on entries naming the signer'",
                   "form entries": 3, "provers listed on the file": 2},
        "assumptions": A_COMMON + A_STORE + A_BANK + ["WF: forms, files and proof records carry account strings in their Prover / Owner fields (written for registered providers and PostFile creators)",
                       "A-KEYPARSE: a store key whose layout parts are addresses, hex and decimal renderings parses in exactly one way (engine binds the record's key fields to the key's parts)",
                       "WF: a form names pairwise distinct providers (what form creation establishes; the form-creation harness is thorough-tier)"],
        "outside": ["forms larger than 3 entries", "the provider population and shuffle behind form creation in the quick tier"],
    },
    "C15": {
        "groups": [{"pkgs": "./x/storage/keeper", "fns": ["VH_C15_*"]}],
        "covers": ["C15/init-succeeds", "C15/shutdown-succeeds"],
        "assumptions": A_COMMON + A_STORE + A_BANK + ["params satisfy the module's own validators (executed)", "WF: a Collateral record exists only together with the Providers record of the same address (both written and removed together by InitProvider/ShutdownProvider)"],
    },
    "C18": {
        "groups": [{"pkgs": "./x/notifications/keeper", "fns": ["VH_C18_*"]}],
        "covers": ["C18/inbox-listed", "C18/delete-removes"],
        "bounds": {"history": "<= 2 CreateNotification + 1 BlockSenders (one blocked address) in either order, then the listing"},
        "assumptions": A_COMMON + A_STORE + ["A-B32", "senders and recipients are canonical account strings (ValidateBasic / Resolve)",
                                             "cross-type decoding follows protobuf field numbers and wire types (crossDecode)"],
    },
    "C16": {
        "groups": [{"pkgs": "./x/rns/keeper", "fns": ["VH_C16_*"]}],
        "covers": ["C16/register-succeeds", "C16/register-fails", "C16/renewal-of-live-name"],
        "assumptions": A_COMMON + A_STORE + A_BANK,
    },
    "C10": {
        "groups": [{"pkgs": "./x/filetree/keeper", "fns": ["VH_C10_*"], "opts": {"j": 5, "w": 3}}],
        "covers": ["C10/delete-changes-target", "C10/changeowner-changes-target", "C10/addviewers-changes-target", "C10/removeviewers-changes-target",
                   "C10/resetviewers-changes-target", "C10/addeditors-changes-target", "C10/removeeditors-changes-target", "C10/reseteditors-changes-target",
                   "C10/post-succeeds", "C10/post-changes-target", "C10/provision-changes-target"],
        "bounds": {"ids per message": 2},
        "conformance": False,
        "assumptions": A_COMMON + A_STORE + ["A-HASH", "A-JSON: json.Unmarshal(json.Marshal(m)) = m; an arbitrary text decodes into an arbitrary map that is a function of the text (or fails)",
                                             "WF: a stored entry sits at FilesKey(its Address, its Owner)"],
    },
    "C11": {
        "pregen": ["python3", "tools/gen_c11.py"],
        "covers_file": ".cache/c11_covers.json",
        "groups": [{"pkgs": "./x/storage/types,./x/rns/types,./x/filetree/types,./x/oracle/types,./x/notifications/types", "fns": ["VH_C11_*"], "opts": {"j": 8, "w": 2}}],
        "covers": [],
        "assumptions": A_COMMON + ["A-B32", "the message types are the request types of each custom module's MsgServer interface (enumerated from x/*/types/tx.pb.go at run time)"],
        "outside": ["that baseapp's MsgServiceRouter finds a handler for each type (runtime protobuf registration)", "signature verification itself (SDK ante handler)"],
    },
    "C20": {
        "groups": [{"pkgs": "./x/filetree/types", "fns": ["VH_C20_*"]}],
        "covers": ["C20/child-reached", "C20/trailing-reached", "C20/injective-reached"],
        "bounds": {"segments": 3},
        "assumptions": A_COMMON + ["A-HASH: sha256 is modelled as an injective function with 32-byte results (collision freedom)"],
    },
    "C12": {
        "groups": [{"pkgs": "./x/storage/keeper", "fns": ["VH_C12_band", "VH_C12_monotone", "VH_C12_same_block", "VH_C12_one_gauge"], "opts": {"j": 4, "w": 4}}],
        "covers": ["C12/band-reached", "C12/monotone-reached", "C12/same-block-reached", "C12/inside-interval", "C12/outside-interval"],
        "bounds": {"deposit": "<= 10^17 per denomination", "duration": "< 2^45 microseconds (~1.1 years)", "gauges": "1 (contract), 2 (same block)", "denominations": 1},
        "assumptions": A_COMMON + A_STORE + A_BANK + ["A-HASH", "A-TIME: block time never decreases (now >= gauge start)",
                       "only the module moves gauge funds (no third-party transfers into a gauge account)",
                       "inductive pre-state: earlier reward blocks released at most the closed form's current value (monotone: VH_C12_monotone)"],
        "outside": ["the unreleased remainder when the first reward block after End deletes the gauge"],
    },
    "C13": {
        "groups": [{"pkgs": "./x/jklmint/utils", "fns": ["VH_C13_*"]}, {"pkgs": "./x/jklmint/keeper", "fns": ["VH_C13_*"]}],
        "covers": ["C13/kernel-reached", "C13/owed-reached", "C13/blockmint-done"],
        "assumptions": A_COMMON + A_STORE + A_BANK + ["A-RECIP: the stipend and dev-grant recipients are valid, ordinary, non-blocked accounts",
                                                      "params satisfy the module's own validators (executed) and the three ratios sum to at most 100",
                                                      "induction over blocks: the previous block's recorded emission is non-negative"],
    },
}

NOT_APPLICABLE = {}
