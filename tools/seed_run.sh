#!/bin/bash
# usage: seed_run.sh [seed-id ...]
# Runs the registered quick check of each seeded change's property with the change applied to a scratch
# worktree of /repo (never to /repo itself); evidence and caches of these runs go to scratch directories.
cd /verif
ids="$@"; [ -z "$ids" ] && ids=$(ls seeded)
wt=/tmp/seedrepo_$$
git -C /repo worktree remove --force $wt >/dev/null 2>&1
git -C /repo worktree add -q --detach $wt HEAD || exit 1
mkdir -p /tmp/seedrun_ev_$$ /tmp/seedrun_cache_$$
for id in $ids; do
  prop=$(python3 -c "import json;print(json.load(open('seeded/$id/meta.json'))['breaks_property'])")
  git -C $wt checkout -q -- . ; git -C $wt apply /verif/seeded/$id/patch.diff || { echo "$id: patch does not apply"; continue; }
  t0=$(date +%s)
  VERIF_REPO=$wt VERIF_EVIDENCE=/tmp/seedrun_ev_$$ VERIF_CACHE=/tmp/seedrun_cache_$$ python3 check.py $prop > /tmp/seedrun_$id.log 2>&1; rc=$?
  t1=$(date +%s)
  v=$(grep -c "^VIOLATION" /tmp/seedrun_$id.log)
  u=$(grep -c "^UNCONFIRMED" /tmp/seedrun_$id.log)
  echo "$id property=$prop exit=$rc violations=$v unconfirmed=$u wall=$((t1-t0))s :: $(grep '^VIOLATION\|obligation \|quick:' /tmp/seedrun_$id.log | head -3 | tr '\n' ' ' | cut -c1-300)"
done
git -C /repo worktree remove --force $wt >/dev/null 2>&1
rm -rf /tmp/seedrun_ev_$$ /tmp/seedrun_cache_$$
