#!/bin/bash
# usage: seed_run.sh [seed-id ...]   runs the registered check of each seeded change's property with the change applied to /repo
cd /verif
ids="$@"; [ -z "$ids" ] && ids=$(ls seeded)
for id in $ids; do
  prop=$(python3 -c "import json;print(json.load(open('seeded/$id/meta.json'))['breaks_property'])")
  git -C /repo checkout -q -- . ; git -C /repo apply /verif/seeded/$id/patch.diff || { echo "$id: patch does not apply"; continue; }
  t0=$(date +%s)
  python3 check.py $prop > /tmp/seedrun_$id.log 2>&1; rc=$?
  git -C /repo checkout -q -- .
  t1=$(date +%s)
  v=$(grep -c "^VIOLATION" /tmp/seedrun_$id.log)
  u=$(grep -c "^UNCONFIRMED" /tmp/seedrun_$id.log)
  echo "$id property=$prop exit=$rc violations=$v unconfirmed=$u wall=$((t1-t0))s :: $(grep '^VIOLATION\|obligation ' /tmp/seedrun_$id.log | head -2 | tr '\n' ' ' | cut -c1-200)"
done
