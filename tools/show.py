#!/usr/bin/env python3
import json,sys,binascii
sc=json.load(open(sys.argv[1]))
print("harness:",sc.get("harness"),"obligation:",sc.get("obligation"))
for k in sorted(sc['nondet']):
    v=sc['nondet'][k]
    if isinstance(v,dict): v=binascii.unhexlify(v['hex'])
    print("  ",k,"=",v)
for b in sc.get('balances') or []:
    print("   bal",b['table'],binascii.unhexlify(b['k1_hex']),b['k2'],b['amount'])
print("   blocked",sc.get('blocked'))
