#!/bin/bash
# usage: seed_verify.sh <seed-id> <property> <patch.diff> <demo_test.go.txt> <dest path of demo relative to repo> <go test pkg> <run regex> <existing-tests pkgs> <needs...>
# Verifies a seeded change in a scratch worktree of /repo: applies, builds, existing tests pass, demo fails with / passes without.
set -u
id=$1; prop=$2; patch=$3; demo=$4; dest=$5; pkg=$6; run=$7; existing=$8; needs=$9
export GOFLAGS=-mod=mod GOPROXY=off GOSUMDB=off GOTOOLCHAIN=local
wt=/tmp/wtv_$id
git -C /repo worktree remove --force $wt >/dev/null 2>&1
git -C /repo worktree add -q --detach $wt HEAD || exit 1
cd $wt
res="{}"
ok=1
git apply --check $patch || { echo "PATCH DOES NOT APPLY"; ok=0; }
if [ $ok = 1 ]; then
  git apply $patch
  go build ./... > /tmp/seed_$id.build 2>&1 || { echo "BUILD FAILS"; ok=0; }
fi
if [ $ok = 1 ]; then
  go test -vet=off -count=1 $existing > /tmp/seed_$id.existing 2>&1 || { echo "EXISTING TESTS FAIL WITH PATCH"; tail -5 /tmp/seed_$id.existing; ok=0; }
fi
if [ $ok = 1 ]; then
  cp $demo $dest
  go test -vet=off -count=1 -run "$run" $pkg > /tmp/seed_$id.with 2>&1 && { echo "DEMO PASSES WITH PATCH (should fail)"; ok=0; }
  git checkout -q -- . 
  go test -vet=off -count=1 -run "$run" $pkg > /tmp/seed_$id.without 2>&1 || { echo "DEMO FAILS WITHOUT PATCH"; tail -5 /tmp/seed_$id.without; ok=0; }
fi
cd /
git -C /repo worktree remove --force $wt >/dev/null 2>&1
if [ $ok = 1 ]; then
  d=/verif/seeded/$id; mkdir -p $d
  cp $patch $d/patch.diff; cp $demo $d/$(basename $dest)
  python3 - "$id" "$prop" "$dest" "$pkg" "$run" "$existing" "$needs" <<'PY'
import json,sys
id,prop,dest,pkg,run,existing,needs=sys.argv[1:8]
json.dump({"id":id,"breaks_property":prop,"needs_to_manifest":needs,"demo_file":dest,
 "verified":{"applies_and_builds":True,"existing_tests_pass_with_patch":"go test -vet=off -count=1 "+existing,
             "demo_fails_with_patch_passes_without":"go test -vet=off -count=1 -run '%s' %s"%(run,pkg)},
 "source":"written by an independent sub-agent given only the property text and a scratch worktree"},
 open("/verif/seeded/%s/meta.json"%id,"w"),indent=1)
PY
  echo "SEED $id VERIFIED"
else
  echo "SEED $id REJECTED"
fi
