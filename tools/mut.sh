#!/bin/bash
# usage: tools/mut.sh <repo-rel-file> <python-expr-old> <new> <PROP>   -- applies a textual mutation through an overlay (never touches /repo)
set -e
f=$1; old=$2; new=$3; prop=$4
tmp=/verif/.cache/mut_$(echo "$f$old$new" | md5sum | cut -c1-8).go
python3 - "$f" "$old" "$new" "$tmp" <<'PY'
import sys
f,old,new,tmp=sys.argv[1:5]
s=open('/repo/'+f).read()
assert old in s, "pattern not found"
open(tmp,'w').write(s.replace(old,new,1))
PY
python3 /verif/check.py $prop --overlay "$f=$tmp" 2>&1 | grep -v "^INCONCLUSIVE" | tail -6
