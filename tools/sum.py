#!/usr/bin/env python3
# usage: sum.py <gosym-result.json>  -- per-harness verdict summary
import json,sys
from collections import Counter
d=json.load(open(sys.argv[1]))
for h in d['results']:
    c=Counter((o['ID'],o['Verdict']) for o in h['obligations'])
    print("==",h['harness'],"wall=%.0fs"%h['wall_s'],h['paths'],"covers:",h['covers'],"unsupported:",h.get('unsupported'))
    for k,v in sorted(c.items()):
        if k[1]!='discharged' or len(sys.argv)>2: print("   ",k,v)
    print("    discharged:",sum(v for k,v in c.items() if k[1]=='discharged'))
    for p in (h.get('panic_sites') or [])[:6]: print("    PANIC",str(p)[:200])
