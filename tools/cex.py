#!/usr/bin/env python3
# usage: cex.py <gosym-result.json> [obligation substring]  -- prints the first violated obligation's scenario
import json,binascii,sys
d=json.load(open(sys.argv[1]))
pat=sys.argv[2] if len(sys.argv)>2 else ''
n=int(sys.argv[3]) if len(sys.argv)>3 else 1
for h in d['results']:
    for ob in h.get('obligations',[]):
        if ob.get('Verdict')=='violated' and pat in ob['ID']:
            print(h['harness'], ob['ID'], 'path', ob['PathID'], ob['Solver'])
            sc=ob.get('Scenario') or {}
            for k in sc.get('order') or sorted(sc.get('nondet',{})):
                v=sc['nondet'].get(k)
                if isinstance(v,dict): v=binascii.unhexlify(v['hex'])
                print('   ',k,'=',v)
            for b in sc.get('balances') or []:
                print("   bal",b['table'],binascii.unhexlify(b['k1_hex']),b['k2'],b['amount'])
            n-=1
            if n<=0: sys.exit(0)
