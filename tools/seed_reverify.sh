#!/bin/bash
# usage: seed_reverify.sh [seed-id ...]  -- re-checks each stored seeded change against the CURRENT /repo HEAD:
# patch applies, builds, demo fails with the patch and passes without. Prints one line per seed.
export GOFLAGS=-mod=mod GOPROXY=off GOSUMDB=off GOTOOLCHAIN=local
cd /verif
ids="$@"; [ -z "$ids" ] && ids=$(ls seeded)
wt=/tmp/seedreverify_$$
git -C /repo worktree remove --force $wt >/dev/null 2>&1
git -C /repo worktree add -q --detach $wt HEAD || exit 1
for id in $ids; do
  d=/verif/seeded/$id
  demo=$(python3 -c "import json;print(json.load(open('$d/meta.json'))['demo_file'])")
  cmd=$(python3 -c "import json;print(json.load(open('$d/meta.json'))['verified']['demo_fails_with_patch_passes_without'])")
  cd $wt; git checkout -q -- .; git clean -fdq
  if ! git apply --check $d/patch.diff 2>/dev/null; then echo "$id: PATCH NO LONGER APPLIES"; continue; fi
  git apply $d/patch.diff
  cp $d/$(basename $demo) $wt/$demo
  if ! go build ./... >/dev/null 2>&1; then echo "$id: BUILD FAILS"; continue; fi
  eval "$cmd" > /tmp/reverify_$id.with 2>&1; w=$?
  git checkout -q -- .
  eval "$cmd" > /tmp/reverify_$id.without 2>&1; wo=$?
  rm -f $wt/$demo
  if [ $w -ne 0 ] && [ $wo -eq 0 ]; then echo "$id: STILL VALID"; else echo "$id: STALE (with=$w without=$wo)"; fi
done
cd /; git -C /repo worktree remove --force $wt >/dev/null 2>&1
