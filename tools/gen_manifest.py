#!/usr/bin/env python3
"""Regenerates /verif/MANIFEST.json from checks.py (claimed properties) and properties.jsonl."""
import json, os, sys
V = os.path.dirname(os.path.dirname(os.path.abspath(__file__)))
sys.path.insert(0, V)
from checks import CHECKS, NOT_APPLICABLE
props = [json.loads(l) for l in open(os.path.join(V, "properties.jsonl"))]
checks = []
for p in props:
    pid = p["id"]
    if pid not in CHECKS or CHECKS[pid].get("unregistered"):
        continue
    c = CHECKS[pid]
    b = c.get("bounds", {})
    btxt = "; ".join("%s: %s" % (k, v) for k, v in b.items()) if isinstance(b, dict) else str(b)
    text = c.get("level_text") or ("bounded symbolic execution (path exploration + SMT) of the real handlers; all inputs and pre-states within the bounds: " + (btxt or "see evidence file"))
    note = c.get("level_note") or ("outside the claim: " + "; ".join(c.get("outside", ["see evidence file"])))
    checks.append({
        "property_id": pid,
        "quick_cmd": "python3 check.py %s --tier quick" % pid,
        "thorough_cmd": "python3 check.py %s --tier thorough" % pid,
        "evidence_file": "/verif/evidence/%s.json" % pid,
        "replay_cmd_template": "python3 check.py --replay {path}",
        "engine": "gosym",
        "level_claimed": {"category": "model_checking", "text": text[:1500], "design_ref": c.get("design_ref", "DESIGN.md sections 0.2 and 8 (" + pid + ")")},
        "level_note": note[:1500],
        "technique": c.get("technique", "bounded symbolic execution of the real Go code from go/ssa; each obligation decided by an SMT verdict (z3 5.1 / cvc5 portfolio); sat answers replayed natively"),
    })
na = []
for p in props:
    pid = p["id"]
    if pid in CHECKS and not CHECKS[pid].get("unregistered"):
        continue
    na.append({"property_id": pid, "reason": NOT_APPLICABLE.get(pid, "no check registered yet (work in progress)")})
m = {
    "version": 1,
    "setup_cmd": "cd /verif/engine && GOFLAGS=-mod=mod GOPROXY=off GOSUMDB=off GOTOOLCHAIN=local go build -o /verif/bin/gosym ./cmd/gosym",
    "hooks": {"guard": "verif", "enable": "no hook commits in /repo: harness sources are injected with go/packages and `go build -overlay` overlays (DESIGN.md section 2.2)",
              "baseline_off_cmd": "cd /repo && GOFLAGS=-mod=mod GOPROXY=off go test -vet=off -count=1 ./...", "source_commits": [], "add_only": True},
    "engines": [{"name": "gosym", "path": "/verif/engine", "serves_properties": [c["property_id"] for c in checks],
                 "kind_free_text": "Go-SSA path-exploring symbolic executor (written for this task) emitting SMT-LIB2 to a z3-new 5.1 / cvc5 portfolio; native replay of counterexamples"}],
    "checks": checks,
    "not_applicable": na,
    "notes": "Every verdict is bounded: bounds, assumptions and what lies outside the claim are written into each evidence file by the run itself. Fixed defects and known findings: /verif/known_findings.txt.",
}
json.dump(m, open(os.path.join(V, "MANIFEST.json"), "w"), indent=1)
print("claimed:", [c["property_id"] for c in checks])
