package zzverif

import paramtypes "github.com/cosmos/cosmos-sdk/x/params/types"

// ValidateParamSet runs every registered validator of the parameter set on its current value, exactly
// what Subspace.SetParamSet enforces for governance-set parameters.
func ValidateParamSet(ps paramtypes.ParamSet) error {
	for _, pair := range ps.ParamSetPairs() {
		if err := pair.ValidatorFn(Deref(pair.Value)); err != nil {
			return err
		}
	}
	return nil
}
