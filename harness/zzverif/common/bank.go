package zzverif

import (
	"math/big"

	sdk "github.com/cosmos/cosmos-sdk/types"
	sdkerrors "github.com/cosmos/cosmos-sdk/types/errors"
)

// Bank is the model of x/bank used by every harness (assumption A-BANK): balances are a table
// (address bytes, denom) -> amount over an arbitrary non-negative initial state; sends are
// all-or-nothing; insufficient funds, invalid coins and blocked recipients are the only failures;
// supply changes only by mint and burn. It is ordinary Go: the engine executes it symbolically and
// the replay executes it natively.
type Bank struct {
	Denoms []string // denomination universe for GetAllBalances / SpendableCoins
	NoMint map[string]bool
}

func NewBank(denoms ...string) *Bank { return &Bank{Denoms: denoms} }

func (b *Bank) Bal(addr sdk.AccAddress, denom string) sdk.Int {
	return sdk.NewIntFromBigInt(TblGet("bal", addr, denom))
}

func (b *Bank) setBal(addr sdk.AccAddress, denom string, v sdk.Int) {
	TblSet("bal", addr, denom, v.BigInt())
}

func (b *Bank) Supply(denom string) sdk.Int {
	return sdk.NewIntFromBigInt(TblGet("supply", []byte("supply"), denom))
}

func (b *Bank) setSupply(denom string, v sdk.Int) {
	TblSet("supply", []byte("supply"), denom, v.BigInt())
}

// ModuleBal is the balance of a module account.
func (b *Bank) ModuleBal(module, denom string) sdk.Int { return b.Bal(ModuleAddr(module), denom) }

func (b *Bank) SendCoins(_ sdk.Context, from, to sdk.AccAddress, amt sdk.Coins) error {
	if !amt.IsValid() {
		return sdkerrors.ErrInvalidCoins
	}
	for _, c := range amt {
		if b.Bal(from, c.Denom).LT(c.Amount) {
			return sdkerrors.ErrInsufficientFunds
		}
	}
	for _, c := range amt {
		b.setBal(from, c.Denom, b.Bal(from, c.Denom).Sub(c.Amount))
		b.setBal(to, c.Denom, b.Bal(to, c.Denom).Add(c.Amount))
	}
	return nil
}

func (b *Bank) SendCoinsFromModuleToAccount(ctx sdk.Context, senderModule string, recipient sdk.AccAddress, amt sdk.Coins) error {
	if Blocked(recipient) {
		return sdkerrors.ErrUnauthorized
	}
	return b.SendCoins(ctx, ModuleAddr(senderModule), recipient, amt)
}

func (b *Bank) SendCoinsFromAccountToModule(ctx sdk.Context, sender sdk.AccAddress, recipientModule string, amt sdk.Coins) error {
	return b.SendCoins(ctx, sender, ModuleAddr(recipientModule), amt)
}

func (b *Bank) SendCoinsFromModuleToModule(ctx sdk.Context, senderModule, recipientModule string, amt sdk.Coins) error {
	return b.SendCoins(ctx, ModuleAddr(senderModule), ModuleAddr(recipientModule), amt)
}

func (b *Bank) MintCoins(_ sdk.Context, module string, amt sdk.Coins) error {
	if b.NoMint != nil && b.NoMint[module] {
		panic("module account " + module + " does not have permissions to mint tokens")
	}
	if !amt.IsValid() {
		return sdkerrors.ErrInvalidCoins
	}
	for _, c := range amt {
		b.setBal(ModuleAddr(module), c.Denom, b.ModuleBal(module, c.Denom).Add(c.Amount))
		b.setSupply(c.Denom, b.Supply(c.Denom).Add(c.Amount))
	}
	return nil
}

func (b *Bank) BurnCoins(_ sdk.Context, module string, amt sdk.Coins) error {
	if !amt.IsValid() {
		return sdkerrors.ErrInvalidCoins
	}
	for _, c := range amt {
		if b.ModuleBal(module, c.Denom).LT(c.Amount) {
			return sdkerrors.ErrInsufficientFunds
		}
	}
	for _, c := range amt {
		b.setBal(ModuleAddr(module), c.Denom, b.ModuleBal(module, c.Denom).Sub(c.Amount))
		b.setSupply(c.Denom, b.Supply(c.Denom).Sub(c.Amount))
	}
	return nil
}

func (b *Bank) GetBalance(_ sdk.Context, addr sdk.AccAddress, denom string) sdk.Coin {
	return sdk.Coin{Denom: denom, Amount: b.Bal(addr, denom)}
}

// GetAllBalances ranges over the declared denomination universe (which the harness keeps sorted).
func (b *Bank) GetAllBalances(_ sdk.Context, addr sdk.AccAddress) sdk.Coins {
	out := sdk.Coins{}
	for _, d := range b.Denoms {
		a := b.Bal(addr, d)
		if a.IsPositive() {
			out = append(out, sdk.Coin{Denom: d, Amount: a})
		}
	}
	return out
}

func (b *Bank) SpendableCoins(ctx sdk.Context, addr sdk.AccAddress) sdk.Coins {
	return b.GetAllBalances(ctx, addr)
}

// ZBal is the balance as a mathematical integer.
func (b *Bank) ZBal(addr sdk.AccAddress, denom string) Z { return ZOfBig(b.Bal(addr, denom).BigInt()) }
func (b *Bank) ZModuleBal(module, denom string) Z        { return ZOfBig(b.ModuleBal(module, denom).BigInt()) }
func (b *Bank) ZSupply(denom string) Z                   { return ZOfBig(b.Supply(denom).BigInt()) }

var _ = big.NewInt

func (b *Bank) GetSupply(_ sdk.Context, denom string) sdk.Coin {
	return sdk.Coin{Denom: denom, Amount: b.Supply(denom)}
}
