// Package zzverif is the harness API of /verif. It is injected into the repository by a go/packages
// overlay (symbolic run) or a go build overlay (native replay); it is never written into /repo.
package zzverif

import "math/big"

// Z is a mathematical integer for the specification side of harnesses (no int64 wrap-around).
type Z struct{ v *big.Int }

func ZOf(i int64) Z        { return Z{big.NewInt(i)} }
func ZOfU(i uint64) Z      { return Z{new(big.Int).SetUint64(i)} }
func ZOfBig(b *big.Int) Z  { return Z{new(big.Int).Set(b)} }
func (a Z) Big() *big.Int  { return new(big.Int).Set(a.v) }
func (a Z) Add(b Z) Z      { return Z{new(big.Int).Add(a.v, b.v)} }
func (a Z) Sub(b Z) Z      { return Z{new(big.Int).Sub(a.v, b.v)} }
func (a Z) Mul(b Z) Z      { return Z{new(big.Int).Mul(a.v, b.v)} }
func (a Z) Neg() Z         { return Z{new(big.Int).Neg(a.v)} }
// Div is floor division for positive divisors (Euclidean).
func (a Z) Div(b Z) Z      { return Z{new(big.Int).Div(a.v, b.v)} }
func (a Z) Mod(b Z) Z      { return Z{new(big.Int).Mod(a.v, b.v)} }
// Quo truncates toward zero like Go's /.
func (a Z) Quo(b Z) Z      { return Z{new(big.Int).Quo(a.v, b.v)} }
func (a Z) Lt(b Z) bool    { return a.v.Cmp(b.v) < 0 }
func (a Z) Le(b Z) bool    { return a.v.Cmp(b.v) <= 0 }
func (a Z) Gt(b Z) bool    { return a.v.Cmp(b.v) > 0 }
func (a Z) Ge(b Z) bool    { return a.v.Cmp(b.v) >= 0 }
func (a Z) Eq(b Z) bool    { return a.v.Cmp(b.v) == 0 }
func (a Z) IsInt64() bool  { return a.v.IsInt64() }

// Ok: the delivery succeeded (no error, no panic). A panicking message is a failed, rolled-back message.
func Ok(err error, panicked bool) bool { return err == nil && !panicked }
