package zzverif

// Native implementation of the harness API: the same harness functions run as ordinary Go against
// the real keeper code, real cosmos-sdk stores (in-memory), the real codec and the real param store,
// with the solver's values for the nondeterministic inputs (scenario file).

import (
	"runtime/debug"
	"encoding/hex"
	"encoding/json"
	"fmt"
	"math/big"
	"os"
	"reflect"
	"sort"
	"strconv"
	"strings"
	"time"

	"github.com/cosmos/cosmos-sdk/codec"
	codectypes "github.com/cosmos/cosmos-sdk/codec/types"
	"github.com/cosmos/cosmos-sdk/store/dbadapter"
	storetypes "github.com/cosmos/cosmos-sdk/store/types"
	sdk "github.com/cosmos/cosmos-sdk/types"
	authtypes "github.com/cosmos/cosmos-sdk/x/auth/types"
	paramtypes "github.com/cosmos/cosmos-sdk/x/params/types"
	"github.com/tendermint/tendermint/libs/log"
	tmproto "github.com/tendermint/tendermint/proto/tendermint/types"
	dbm "github.com/tendermint/tm-db"
)

type scenarioT struct {
	Harness string                 `json:"harness"`
	Ob      string                 `json:"obligation"`
	Nondet  map[string]interface{} `json:"nondet"`
	Order   []string               `json:"order"`
	Bal     []struct {
		Table  string `json:"table"`
		K1Hex  string `json:"k1_hex"`
		K2     string `json:"k2"`
		Amount string `json:"amount"`
	} `json:"balances"`
	Blocked []string `json:"blocked"`
	Thorough bool    `json:"thorough"`
}

type assumeFailed struct{ what string }

type world struct {
	sc        scenarioT
	counts    map[string]int
	stores    map[string]*dbadapter.Store
	keys      map[string]*sdk.KVStoreKey
	tkeys     map[string]*sdk.TransientStoreKey
	cdc       *codec.ProtoCodec
	amino     *codec.LegacyAmino
	tables    map[string]map[string]*big.Int
	blocked   map[string]bool
	open      map[string]bool
	injected  map[string]bool
	Failed    []string
	Covers    []string
	Notes     []string
	records   map[string]func() codec.ProtoMarshaler
	missing   []string
}

var w *world

// Result is what a replay run reports.
type Result struct {
	Harness      string   `json:"harness"`
	FailedAsserts []string `json:"failed_asserts"`
	Covers       []string `json:"covers"`
	AssumeFailed string   `json:"assume_failed,omitempty"`
	Panic        string   `json:"panic,omitempty"`
	Stack        string   `json:"stack,omitempty"`
	MissingInputs []string `json:"missing_inputs,omitempty"`
}

var recordFactories = map[string]func() codec.ProtoMarshaler{}

// RegisterRecord tells the replay how to build a stored record of the named type.
func RegisterRecord(name string, f func() codec.ProtoMarshaler) { recordFactories[name] = f }

// RunScenario executes one harness function on the scenario in file path.
func RunScenario(path string, harnesses map[string]func()) Result {
	b, err := os.ReadFile(path)
	if err != nil {
		panic(err)
	}
	var sc scenarioT
	dec := json.NewDecoder(strings.NewReader(string(b)))
	dec.UseNumber()
	if err := dec.Decode(&sc); err != nil {
		panic(err)
	}
	cfg := sdk.GetConfig()
	cfg.SetBech32PrefixForAccount("jkl", "jklpub")
	w = &world{sc: sc, counts: map[string]int{}, stores: map[string]*dbadapter.Store{}, keys: map[string]*sdk.KVStoreKey{},
		tkeys: map[string]*sdk.TransientStoreKey{}, tables: map[string]map[string]*big.Int{}, blocked: map[string]bool{},
		open: map[string]bool{}, injected: map[string]bool{}}
	ir := codectypes.NewInterfaceRegistry()
	w.cdc = codec.NewProtoCodec(ir)
	w.amino = codec.NewLegacyAmino()
	for _, br := range sc.Bal {
		k1, _ := hex.DecodeString(br.K1Hex)
		v, _ := new(big.Int).SetString(br.Amount, 10)
		if v == nil {
			v = big.NewInt(0)
		}
		tbl(br.Table)[string(k1)+"\x00"+br.K2] = v
	}
	for _, bl := range sc.Blocked {
		k, _ := hex.DecodeString(bl)
		w.blocked[string(k)] = true
	}
	res := Result{Harness: sc.Harness}
	f, ok := harnesses[sc.Harness]
	if !ok {
		res.Panic = "unknown harness " + sc.Harness
		return res
	}
	func() {
		defer func() {
			if r := recover(); r != nil {
				if af, ok := r.(assumeFailed); ok {
					res.AssumeFailed = af.what
					return
				}
				res.Panic = fmt.Sprint(r)
				res.Stack = string(debug.Stack())
			}
		}()
		f()
	}()
	res.FailedAsserts = w.Failed
	res.Covers = w.Covers
	res.MissingInputs = w.missing
	return res
}

func tbl(name string) map[string]*big.Int {
	t, ok := w.tables[name]
	if !ok {
		t = map[string]*big.Int{}
		w.tables[name] = t
	}
	return t
}

func nextTag(tag string) string {
	n := w.counts[tag]
	w.counts[tag]++
	if n == 0 {
		return tag
	}
	return fmt.Sprintf("%s#%d", tag, n)
}

func rawVal(tag string) (interface{}, bool) {
	v, ok := w.sc.Nondet[nextTag(tag)]
	if !ok {
		w.missing = append(w.missing, tag)
	}
	return v, ok
}

func toBig(v interface{}) *big.Int {
	switch x := v.(type) {
	case json.Number:
		b, _ := new(big.Int).SetString(x.String(), 10)
		return b
	case string:
		b, _ := new(big.Int).SetString(x, 10)
		return b
	case float64:
		return big.NewInt(int64(x))
	}
	return big.NewInt(0)
}

func toBytes(v interface{}) []byte {
	if m, ok := v.(map[string]interface{}); ok {
		if h, ok := m["hex"].(string); ok {
			b, _ := hex.DecodeString(h)
			return b
		}
	}
	if s, ok := v.(string); ok {
		return []byte(s)
	}
	return nil
}

func NondetInt64(tag string) int64 {
	v, ok := rawVal(tag)
	if !ok {
		return 0
	}
	return toBig(v).Int64()
}
func NondetInt(tag string) int                   { return int(NondetInt64(tag)) }
// NondetRange: an input the model left unconstrained is absent from the scenario; any value of the range
// will do, the one nearest to zero is taken.
func NondetRange(tag string, lo, hi int64) int64 {
	v, ok := rawVal(tag)
	if !ok {
		if lo > 0 {
			return lo
		}
		if hi < 0 {
			return hi
		}
		return 0
	}
	return toBig(v).Int64()
}
func NondetUint64(tag string) uint64 {
	v, ok := rawVal(tag)
	if !ok {
		return 0
	}
	return toBig(v).Uint64()
}
func NondetBool(tag string) bool {
	v, ok := rawVal(tag)
	if !ok {
		return false
	}
	b, _ := v.(bool)
	return b
}
func NondetString(tag string) string {
	v, ok := rawVal(tag)
	if !ok {
		return ""
	}
	return string(toBytes(v))
}
func NondetBytes(tag string) []byte {
	v, ok := rawVal(tag)
	if !ok {
		return []byte{}
	}
	b := toBytes(v)
	if b == nil {
		b = []byte{}
	}
	return b
}
func NondetLen(tag string, lo, hi int) int { return int(NondetInt64(tag)) }
func NondetAddr(tag string) string {
	b := NondetBytes(tag)
	for len(b) < 20 {
		b = append(b, 0)
	}
	return sdk.AccAddress(b[:20]).String()
}
func NondetTime(tag string) time.Time {
	v, ok := rawVal(tag)
	if !ok {
		return time.Unix(0, 0).UTC()
	}
	ns := toBig(v)
	sec, nsec := new(big.Int).DivMod(ns, big.NewInt(1_000_000_000), new(big.Int))
	return time.Unix(sec.Int64(), nsec.Int64()).UTC()
}

func And(a, b bool) bool     { return a && b }
func Or(a, b bool) bool      { return a || b }
func Implies(a, b bool) bool { return !a || b }

func IsLowerASCII(s string) bool {
	for i := 0; i < len(s); i++ {
		if s[i] >= 'A' && s[i] <= 'Z' || s[i] >= 0x80 {
			return false
		}
	}
	return true
}

// Arbitrary fills *p from the scenario values tagged <tag>.<Type>.<field path>.
func Arbitrary(p interface{}, tag string) {
	rv := reflect.ValueOf(p).Elem()
	pfx := tag + "." + rv.Type().Name()
	var paths []string
	for t := range w.sc.Nondet {
		if strings.HasPrefix(t, pfx+".") || strings.HasPrefix(t, pfx+"[") {
			paths = append(paths, t)
		}
	}
	sort.Strings(paths)
	for _, t := range paths {
		setPath(rv, t[len(pfx):], w.sc.Nondet[t])
	}
}

func Override(fn string, stub interface{}) {}

func Thorough() bool { return w.sc.Thorough }

func Deref(p interface{}) interface{} { return reflect.Indirect(reflect.ValueOf(p)).Interface() }

func Assume(b bool) {
	if !b {
		panic(assumeFailed{"assumption does not hold on the replayed values"})
	}
}
func Assert(b bool, id string) {
	if !b {
		w.Failed = append(w.Failed, id)
	}
}
func Cover(id string) { w.Covers = append(w.Covers, id) }
func Note(s string)   { w.Notes = append(w.Notes, s) }

func Try(f func()) (panicked bool) {
	defer func() {
		if r := recover(); r != nil {
			if _, ok := r.(assumeFailed); ok {
				panic(r)
			}
			panicked = true
		}
	}()
	f()
	return false
}

type snapshot struct {
	stores map[string]map[string][]byte
	tables map[string]map[string]*big.Int
}

func snap() snapshot {
	s := snapshot{stores: map[string]map[string][]byte{}, tables: map[string]map[string]*big.Int{}}
	for n, st := range w.stores {
		m := map[string][]byte{}
		it := st.Iterator(nil, nil)
		for ; it.Valid(); it.Next() {
			m[string(it.Key())] = append([]byte{}, it.Value()...)
		}
		it.Close()
		s.stores[n] = m
	}
	for n, t := range w.tables {
		m := map[string]*big.Int{}
		for k, v := range t {
			m[k] = new(big.Int).Set(v)
		}
		s.tables[n] = m
	}
	return s
}

func restore(s snapshot) {
	for n, st := range w.stores {
		var keys [][]byte
		it := st.Iterator(nil, nil)
		for ; it.Valid(); it.Next() {
			keys = append(keys, append([]byte(nil), it.Key()...))
		}
		it.Close()
		for _, k := range keys {
			st.Delete(k)
		}
		for k, v := range s.stores[n] {
			st.Set([]byte(k), v)
		}
	}
	w.tables = s.tables
}

// Deliver models message atomicity: state changes are kept only when f returns nil without panicking.
func Deliver(f func() error) (err error, panicked bool) {
	s := snap()
	defer func() {
		if r := recover(); r != nil {
			if _, ok := r.(assumeFailed); ok {
				panic(r)
			}
			restore(s)
			err, panicked = nil, true
		}
	}()
	err = f()
	if err != nil {
		restore(s)
	}
	return err, false
}

// ---- environment

type multiStore struct{ storetypes.MultiStore }

func kv(name string) *dbadapter.Store {
	st, ok := w.stores[name]
	if !ok {
		st = &dbadapter.Store{DB: dbm.NewMemDB()}
		w.stores[name] = st
		if w.open[name] {
			inject(name)
		}
	}
	return st
}

func (m multiStore) GetKVStore(k storetypes.StoreKey) storetypes.KVStore { return kv(k.Name()) }
func (m multiStore) GetStore(k storetypes.StoreKey) storetypes.Store     { return kv(k.Name()) }

func StoreKey(name string) sdk.StoreKey {
	k, ok := w.keys[name]
	if !ok {
		k = sdk.NewKVStoreKey(name)
		w.keys[name] = k
	}
	return k
}

func Codec() codec.BinaryCodec { return w.cdc }

func Subspace(name string) paramtypes.Subspace {
	k := StoreKey("params").(*sdk.KVStoreKey)
	tk, ok := w.tkeys["transient_params"]
	if !ok {
		tk = sdk.NewTransientStoreKey("transient_params")
		w.tkeys["transient_params"] = tk
	}
	return paramtypes.NewSubspace(w.cdc, w.amino, k, tk, name)
}

func Ctx(height int64, t time.Time, gas uint64) sdk.Context {
	ctx := sdk.NewContext(multiStore{}, tmproto.Header{Height: height, Time: t}, false, log.NewNopLogger())
	gm := sdk.NewInfiniteGasMeter()
	gm.ConsumeGas(gas, "scenario")
	return ctx.WithBlockGasMeter(gm)
}

func OpenStore(name string) {
	w.open[name] = true
	if _, ok := w.stores[name]; ok {
		inject(name)
	}
}
func SetSliceBound(n int)                  {}
func AssumeNoKeysWithPrefix(store, prefix string) {}
func SetSliceBoundFor(field string, n int) {}
func RandChoiceMode(on bool)               {}
func WF(typ string, clauses ...string)         {}

var moduleNames = []string{"rns", "storage", "jklmint", "oracle", "notifications", "filetree", "fee_collector", "distribution", "bonded_tokens_pool", "not_bonded_tokens_pool", "gov", "mint", "transfer", "wasm"}

func IsModuleAddr(addr sdk.AccAddress) bool {
	for _, m := range moduleNames {
		if string(authtypes.NewModuleAddress(m)) == string(addr) {
			return true
		}
	}
	return false
}
func WFKey(store, typ string, parts ...string) {}
func WFAddr(typ string, fields ...string)      {}
func ModuleAddr(name string) sdk.AccAddress { return authtypes.NewModuleAddress(name) }
func Blocked(addr sdk.AccAddress) bool      { return w.blocked[string(addr)] }
func StoreWrites() int                      { return 0 }
func TypeConfusion() bool                   { return false }
func EventCount() int                       { return 0 }

func TblGet(t string, k1 []byte, k2 string) *big.Int {
	v, ok := tbl(t)[string(k1)+"\x00"+k2]
	if !ok {
		return big.NewInt(0)
	}
	return new(big.Int).Set(v)
}
func TblSet(t string, k1 []byte, k2 string, v *big.Int) {
	tbl(t)[string(k1)+"\x00"+k2] = new(big.Int).Set(v)
}

// inject writes the open-world records the solver materialised into the real store.
func inject(store string) {
	if w.injected[store] {
		return
	}
	w.injected[store] = true
	pfx := "store." + store + ".key"
	var ids []int
	for tag := range w.sc.Nondet {
		if strings.HasPrefix(tag, pfx) {
			n, err := strconv.Atoi(tag[len(pfx):])
			if err == nil {
				ids = append(ids, n)
			}
		}
	}
	sort.Ints(ids)
	for _, id := range ids {
		key := toBytes(w.sc.Nondet[fmt.Sprintf("%s%d", pfx, id)])
		present, _ := w.sc.Nondet[fmt.Sprintf("store.%s.present%d", store, id)].(bool)
		if !present {
			continue
		}
		// typed record?
		rp := fmt.Sprintf("rec%d.", id)
		typ := ""
		fields := map[string]interface{}{}
		for tag, v := range w.sc.Nondet {
			if strings.HasPrefix(tag, rp) {
				rest := tag[len(rp):]
				i := strings.IndexAny(rest, ".[")
				if i < 0 {
					typ = rest
					continue
				}
				typ = rest[:i]
				fields[rest[i:]] = v
			}
		}
		if typ == "" {
			raw := toBytes(w.sc.Nondet[fmt.Sprintf("store.%s.raw%d", store, id)])
			if raw == nil {
				raw = []byte{}
			}
			w.stores[store].Set(key, raw)
			continue
		}
		mk, ok := recordFactories[typ]
		if !ok {
			panic("zzverif: no record factory for " + typ)
		}
		msg := mk()
		var paths []string
		for p := range fields {
			paths = append(paths, p)
		}
		sort.Strings(paths)
		for _, p := range paths {
			setPath(reflect.ValueOf(msg).Elem(), p, fields[p])
		}
		w.stores[store].Set(key, w.cdc.MustMarshal(msg))
	}
}

// setPath assigns v at a path like ".Proofs[1]" or ".Coins[0].Amount".
func setPath(rv reflect.Value, path string, v interface{}) {
	for path != "" {
		switch path[0] {
		case '.':
			j := 1
			for j < len(path) && path[j] != '.' && path[j] != '[' {
				j++
			}
			name := path[1:j]
			path = path[j:]
			for rv.Kind() == reflect.Ptr {
				if rv.IsNil() {
					rv.Set(reflect.New(rv.Type().Elem()))
				}
				rv = rv.Elem()
			}
			if rv.Type() == reflect.TypeOf(sdk.Int{}) || rv.Type() == reflect.TypeOf(time.Time{}) {
				path = ""
				break
			}
			f := rv.FieldByName(name)
			if !f.IsValid() {
				return
			}
			rv = f
		case '[':
			j := strings.IndexByte(path, ']')
			idx, _ := strconv.Atoi(path[1:j])
			path = path[j+1:]
			for rv.Len() <= idx {
				rv.Set(reflect.Append(rv, reflect.Zero(rv.Type().Elem())))
			}
			rv = rv.Index(idx)
		default:
			return
		}
	}
	for rv.Kind() == reflect.Ptr {
		if rv.IsNil() {
			rv.Set(reflect.New(rv.Type().Elem()))
		}
		rv = rv.Elem()
	}
	switch {
	case rv.Type() == reflect.TypeOf(sdk.Int{}):
		rv.Set(reflect.ValueOf(sdk.NewIntFromBigInt(toBig(v))))
	case rv.Type() == reflect.TypeOf(time.Time{}):
		ns := toBig(v)
		sec, nsec := new(big.Int).DivMod(ns, big.NewInt(1_000_000_000), new(big.Int))
		rv.Set(reflect.ValueOf(time.Unix(sec.Int64(), nsec.Int64()).UTC()))
	case rv.Kind() == reflect.String:
		rv.SetString(string(toBytes(v)))
	case rv.Kind() == reflect.Bool:
		b, _ := v.(bool)
		rv.SetBool(b)
	case rv.Kind() >= reflect.Int && rv.Kind() <= reflect.Int64:
		rv.SetInt(toBig(v).Int64())
	case rv.Kind() >= reflect.Uint && rv.Kind() <= reflect.Uint64:
		rv.SetUint(toBig(v).Uint64())
	case rv.Kind() == reflect.Slice && rv.Type().Elem().Kind() == reflect.Uint8:
		rv.SetBytes(toBytes(v))
	}
}

// ---- determinism (C06): natively the effects of a run are summarised by the resulting contents of every
// store and bank table (the ordered write log is not observable without instrumenting the stores).
func Snapshot() interface{} { return snap() }
func Restore(s interface{}) { restore(s.(snapshot)) }
func EffectsSince(s interface{}) interface{} {
	cur := snap()
	var sb strings.Builder
	var names []string
	for n := range cur.stores {
		names = append(names, n)
	}
	sort.Strings(names)
	for _, n := range names {
		var keys []string
		for k := range cur.stores[n] {
			keys = append(keys, k)
		}
		sort.Strings(keys)
		for _, k := range keys {
			fmt.Fprintf(&sb, "%s|%x=%x\n", n, k, cur.stores[n][k])
		}
	}
	names = nil
	for n := range cur.tables {
		names = append(names, n)
	}
	sort.Strings(names)
	for _, n := range names {
		var keys []string
		for k := range cur.tables[n] {
			keys = append(keys, k)
		}
		sort.Strings(keys)
		for _, k := range keys {
			fmt.Fprintf(&sb, "%s|%x=%s\n", n, k, cur.tables[n][k].String())
		}
	}
	return sb.String()
}
func SameEffects(a, b interface{}) bool { return a.(string) == b.(string) }
