package zzverif

// Symbolic-mode declarations: every function here is intercepted by the gosym engine by name;
// the bodies are never executed.

import (
	"math/big"
	"time"

	"github.com/cosmos/cosmos-sdk/codec"
	sdk "github.com/cosmos/cosmos-sdk/types"
	paramtypes "github.com/cosmos/cosmos-sdk/x/params/types"
)

func sym() { panic("zzverif: symbolic-only function called natively") }

func NondetInt64(tag string) int64               { sym(); return 0 }
func NondetInt(tag string) int                   { sym(); return 0 }
func NondetUint64(tag string) uint64             { sym(); return 0 }
func NondetRange(tag string, lo, hi int64) int64 { sym(); return 0 }
func NondetBool(tag string) bool                 { sym(); return false }
func NondetString(tag string) string             { sym(); return "" }
func NondetBytes(tag string) []byte              { sym(); return nil }
func NondetLen(tag string, lo, hi int) int       { sym(); return 0 }
func NondetAddr(tag string) string               { sym(); return "" }
func NondetTime(tag string) time.Time            { sym(); return time.Time{} }
// And/Or/Implies/Not evaluate both operands (no short-circuit branching in harness code).
func And(a, b bool) bool                         { sym(); return false }
func Or(a, b bool) bool                          { sym(); return false }
func Implies(a, b bool) bool                     { sym(); return false }
// IsLowerASCII: s is pure ASCII without upper-case letters.
func IsLowerASCII(s string) bool                 { sym(); return false }
// Deref returns the value a pointer (held in an interface) points to, as an interface value.
// Arbitrary fills *p with an arbitrary value of its type (string fields of a struct pairwise distinct).
func Arbitrary(p interface{}, tag string)         { sym() }
// Override replaces every call of the named function (go/ssa spelling) by the stub (same parameters, receiver
// first) for the rest of the path: a stated cut. Natively it is a no-op (the real function runs).
func Override(fn string, stub interface{})       { sym() }
// Thorough: the run is the thorough tier (harnesses widen their bounds).
func Thorough() bool                             { sym(); return false }
func Deref(p interface{}) interface{}            { sym(); return nil }
func Assume(b bool)                              { sym() }
func Assert(b bool, id string)                   { sym() }
func Cover(id string)                            { sym() }
func Note(s string)                              { sym() }
func Try(f func()) (panicked bool)               { sym(); return false }
func Deliver(f func() error) (error, bool)       { sym(); return nil, false }

func StoreKey(name string) sdk.StoreKey                          { sym(); return nil }
func Codec() codec.BinaryCodec                                   { sym(); return nil }
func Subspace(name string) paramtypes.Subspace                   { sym(); return paramtypes.Subspace{} }
func Ctx(height int64, t time.Time, gas uint64) sdk.Context      { sym(); return sdk.Context{} }
func OpenStore(name string)                                      { sym() }
// AssumeNoKeysWithPrefix restricts the open pre-state: no record exists under the key prefix (a stated bound).
func AssumeNoKeysWithPrefix(store, prefix string)                { sym() }
func SetSliceBound(n int)                                        { sym() }
func SetSliceBoundFor(field string, n int)                       { sym() }
// WFKey declares that open-world records of the type sit at the key built from their own fields
// (parts: literal text, "$Field", "hex:$Field", "dec:$Field"); WFAddr that the fields hold valid account strings.
func WFKey(store, typ string, parts ...string)                   { sym() }
func WFAddr(typ string, fields ...string)                        { sym() }
// WF clauses: nocontain:Field:text, oneof:Field:a,b, lower:Field, nonneg:Field, pos:Field, coin:Field
func WF(typ string, clauses ...string)                           { sym() }
// IsModuleAddr: the address belongs to some module account (module accounts never sign transactions).
func IsModuleAddr(addr sdk.AccAddress) bool                      { sym(); return false }
func RandChoiceMode(on bool)                                     { sym() }
func ModuleAddr(name string) sdk.AccAddress                      { sym(); return nil }
func Blocked(addr sdk.AccAddress) bool                           { sym(); return false }
// TypeConfusion: some stored record has been decoded as a record of another type on this path.
func TypeConfusion() bool                                        { sym(); return false }
func StoreWrites() int                                           { sym(); return 0 }
func EventCount() int                                            { sym(); return 0 }
func TblGet(tbl string, k1 []byte, k2 string) *big.Int           { sym(); return nil }
func TblSet(tbl string, k1 []byte, k2 string, v *big.Int)        { sym() }

// determinism (C06)
func Snapshot() interface{}                     { sym(); return nil }
func Restore(snap interface{})                  { sym() }
func EffectsSince(snap interface{}) interface{} { sym(); return nil }
func SameEffects(a, b interface{}) bool         { sym(); return false }
