package zzverif

// Symbolic-mode declarations: every function here is intercepted by the gosym engine by name;
// the bodies are never executed.

import (
	"math/big"
	"time"

	"github.com/cosmos/cosmos-sdk/codec"
	sdk "github.com/cosmos/cosmos-sdk/types"
	paramtypes "github.com/cosmos/cosmos-sdk/x/params/types"
)

func sym() { panic("zzverif: symbolic-only function called natively") }

func NondetInt64(tag string) int64               { sym(); return 0 }
func NondetInt(tag string) int                   { sym(); return 0 }
func NondetUint64(tag string) uint64             { sym(); return 0 }
func NondetRange(tag string, lo, hi int64) int64 { sym(); return 0 }
func NondetBool(tag string) bool                 { sym(); return false }
func NondetString(tag string) string             { sym(); return "" }
func NondetBytes(tag string) []byte              { sym(); return nil }
func NondetLen(tag string, lo, hi int) int       { sym(); return 0 }
func NondetAddr(tag string) string               { sym(); return "" }
func NondetTime(tag string) time.Time            { sym(); return time.Time{} }
// And/Or/Implies/Not evaluate both operands (no short-circuit branching in harness code).
func And(a, b bool) bool                         { sym(); return false }
func Or(a, b bool) bool                          { sym(); return false }
func Implies(a, b bool) bool                     { sym(); return false }
func Assume(b bool)                              { sym() }
func Assert(b bool, id string)                   { sym() }
func Cover(id string)                            { sym() }
func Note(s string)                              { sym() }
func Try(f func()) (panicked bool)               { sym(); return false }
func Deliver(f func() error) (error, bool)       { sym(); return nil, false }

func StoreKey(name string) sdk.StoreKey                          { sym(); return nil }
func Codec() codec.BinaryCodec                                   { sym(); return nil }
func Subspace(name string) paramtypes.Subspace                   { sym(); return paramtypes.Subspace{} }
func Ctx(height int64, t time.Time, gas uint64) sdk.Context      { sym(); return sdk.Context{} }
func OpenStore(name string)                                      { sym() }
func SetSliceBound(n int)                                        { sym() }
func SetSliceBoundFor(field string, n int)                       { sym() }
func RandChoiceMode(on bool)                                     { sym() }
func ModuleAddr(name string) sdk.AccAddress                      { sym(); return nil }
func Blocked(addr sdk.AccAddress) bool                           { sym(); return false }
func StoreWrites() int                                           { sym(); return 0 }
func EventCount() int                                            { sym(); return 0 }
func TblGet(tbl string, k1 []byte, k2 string) *big.Int           { sym(); return nil }
func TblSet(tbl string, k1 []byte, k2 string, v *big.Int)        { sym() }
