package storage

import (
	sdk "github.com/cosmos/cosmos-sdk/types"
	authtypes "github.com/cosmos/cosmos-sdk/x/auth/types"
	oraclekeeper "github.com/jackalLabs/canine-chain/v4/x/oracle/keeper"
	rnskeeper "github.com/jackalLabs/canine-chain/v4/x/rns/keeper"
	"github.com/jackalLabs/canine-chain/v4/x/storage/keeper"
	"github.com/jackalLabs/canine-chain/v4/x/storage/types"
	"github.com/jackalLabs/canine-chain/v4/zzverif"
)

// C19 (storage): a state holding one arbitrary record of a kind, written by the module's own setter, is
// exported by the real ExportGenesis, validated by the real GenesisState.Validate and imported by the real
// InitGenesis into an EMPTY store of a second keeper; the record must be readable there with the same
// value, and exporting the imported state must give the same lists.

type zzAccounts struct{}

func (zzAccounts) GetAccount(ctx sdk.Context, addr sdk.AccAddress) authtypes.AccountI { return nil }
func (zzAccounts) GetModuleAddress(moduleName string) sdk.AccAddress {
	return zzverif.ModuleAddr(moduleName)
}
func (zzAccounts) HasAccount(ctx sdk.Context, addr sdk.AccAddress) bool { return false }
func (zzAccounts) SetAccount(ctx sdk.Context, acc authtypes.AccountI)   {}
func (zzAccounts) NewAccountWithAddress(ctx sdk.Context, addr sdk.AccAddress) authtypes.AccountI {
	return authtypes.NewBaseAccountWithAddress(addr)
}

type zzGen struct {
	k1, k2 keeper.Keeper
	ctx    sdk.Context
}

func zzGenSetup() *zzGen {
	bank := zzverif.NewBank("ujkl")
	cdc := zzverif.Codec()
	rk := rnskeeper.NewKeeper(cdc, zzverif.StoreKey("rns"), zzverif.Subspace("rns"), bank)
	ok := oraclekeeper.NewKeeper(cdc, zzverif.StoreKey("oracle"), zzverif.Subspace("oracle"), bank)
	k1 := keeper.NewKeeper(cdc, zzverif.StoreKey("storage"), zzverif.Subspace("storage"), bank, zzAccounts{}, ok, rk, "fee_collector")
	k2 := keeper.NewKeeper(cdc, zzverif.StoreKey("storage.fresh"), zzverif.Subspace("storage.fresh"), bank, zzAccounts{}, ok, rk, "fee_collector")
	g := &zzGen{k1: *k1, k2: *k2}
	g.ctx = zzverif.Ctx(zzverif.NondetRange("height", 0, 1<<40), zzverif.NondetTime("blocktime"), 0)
	p := types.DefaultParams()
	p.ProofWindow = zzverif.NondetRange("param.ProofWindow", 2, 1<<40)
	p.CheckWindow = zzverif.NondetRange("param.CheckWindow", 2, 1<<40)
	p.AttestMinToPass = zzverif.NondetRange("param.AttestMinToPass", 0, 1<<20)
	g.k1.SetParams(g.ctx, p)
	return g
}

func (g *zzGen) zzRoundTrip() (*types.GenesisState, *types.GenesisState) {
	gen := ExportGenesis(g.ctx, g.k1)
	zzverif.Assert(gen.Validate() == nil, "C19/storage-exported-genesis-validates")
	InitGenesis(g.ctx, g.k2, *gen)
	gen2 := ExportGenesis(g.ctx, g.k2)
	zzverif.Cover("C19/storage-round-trip-done")
	p1, p2 := g.k1.GetParams(g.ctx), g.k2.GetParams(g.ctx)
	zzverif.Assert(zzverif.And(p1.ProofWindow == p2.ProofWindow, zzverif.And(p1.CheckWindow == p2.CheckWindow, p1.AttestMinToPass == p2.AttestMinToPass)), "C19/storage-params-survive")
	return gen, gen2
}

func zzFile() types.UnifiedFile {
	return types.UnifiedFile{
		Merkle: zzverif.NondetBytes("file.merkle"), Owner: zzverif.NondetAddr("file.owner"), Start: zzverif.NondetRange("file.start", 0, 1<<40),
		Expires: zzverif.NondetInt64("file.expires"), FileSize: zzverif.NondetRange("file.size", 1, 1<<40), ProofInterval: zzverif.NondetRange("file.interval", 2, 1<<40),
		ProofType: zzverif.NondetInt64("file.prooftype"), MaxProofs: zzverif.NondetRange("file.maxproofs", 1, 1<<20), Note: zzverif.NondetString("file.note"),
	}
}

func zzSameFile(a, b types.UnifiedFile) bool {
	if len(a.Proofs) != len(b.Proofs) {
		return false
	}
	ok := zzverif.And(string(a.Merkle) == string(b.Merkle), zzverif.And(a.Owner == b.Owner, a.Start == b.Start))
	ok = zzverif.And(ok, zzverif.And(a.Expires == b.Expires, zzverif.And(a.FileSize == b.FileSize, a.ProofInterval == b.ProofInterval)))
	ok = zzverif.And(ok, zzverif.And(a.ProofType == b.ProofType, zzverif.And(a.MaxProofs == b.MaxProofs, a.Note == b.Note)))
	for i := range a.Proofs {
		ok = zzverif.And(ok, a.Proofs[i] == b.Proofs[i])
	}
	return ok
}

// VH_C19_storage_file: a stored file (both indexes), a provider, a plan, a collateral record.
func VH_C19_storage_file() {
	g := zzGenSetup()
	f := zzFile()
	g.k1.SetFile(g.ctx, f)
	prov := types.Providers{Address: zzverif.NondetAddr("prov.address"), Ip: zzverif.NondetString("prov.ip"), Totalspace: zzverif.NondetString("prov.space"),
		BurnedContracts: zzverif.NondetString("prov.burned"), Creator: zzverif.NondetAddr("prov.creator"), KeybaseIdentity: zzverif.NondetString("prov.keybase")}
	g.k1.SetProviders(g.ctx, prov)
	col := types.Collateral{Address: prov.Address, Amount: zzverif.NondetRange("col.amount", 0, 1<<62)}
	g.k1.SetCollateral(g.ctx, col)
	pay := types.StoragePaymentInfo{Start: zzverif.NondetTime("pay.start"), End: zzverif.NondetTime("pay.end"), SpaceAvailable: zzverif.NondetRange("pay.avail", 0, 1<<62),
		SpaceUsed: zzverif.NondetRange("pay.used", 0, 1<<62), Address: zzverif.NondetAddr("pay.address")}
	g.k1.SetStoragePaymentInfo(g.ctx, pay)

	gen, gen2 := g.zzRoundTrip()

	got, found := g.k2.GetFile(g.ctx, f.Merkle, f.Owner, f.Start)
	zzverif.Assert(found && zzSameFile(got, f), "C19/storage-file-survives")
	gp, pf := g.k2.GetProviders(g.ctx, prov.Address)
	zzverif.Assert(pf && zzverif.And(gp.Ip == prov.Ip, zzverif.And(gp.Totalspace == prov.Totalspace, zzverif.And(gp.BurnedContracts == prov.BurnedContracts, zzverif.And(gp.Creator == prov.Creator, gp.KeybaseIdentity == prov.KeybaseIdentity)))), "C19/storage-provider-survives")
	gc, cf := g.k2.GetCollateral(g.ctx, col.Address)
	zzverif.Assert(cf && gc.Amount == col.Amount, "C19/storage-collateral-survives")
	gy, yf := g.k2.GetStoragePaymentInfo(g.ctx, pay.Address)
	zzverif.Assert(yf && zzverif.And(gy.SpaceAvailable == pay.SpaceAvailable, zzverif.And(gy.SpaceUsed == pay.SpaceUsed, zzverif.And(gy.Start.Equal(pay.Start), gy.End.Equal(pay.End)))), "C19/storage-plan-survives")
	zzverif.Assert(len(gen2.FileList) == len(gen.FileList) && len(gen2.ProvidersList) == len(gen.ProvidersList) && len(gen2.PaymentInfoList) == len(gen.PaymentInfoList) && len(gen2.CollateralList) == len(gen.CollateralList), "C19/storage-second-export-lists-the-same-records")
}

// VH_C19_storage_forms: an attestation form, a report form and a payment gauge.
func VH_C19_storage_forms() {
	g := zzGenSetup()
	at := types.AttestationForm{Prover: zzverif.NondetAddr("form.prover"), Merkle: zzverif.NondetBytes("form.merkle"), Owner: zzverif.NondetAddr("form.owner"), Start: zzverif.NondetRange("form.start", 0, 1<<40),
		Attestations: []*types.Attestation{{Provider: zzverif.NondetAddr("form.provider"), Complete: zzverif.NondetBool("form.complete")}}}
	g.k1.SetAttestationForm(g.ctx, at)
	rp := types.ReportForm{Prover: zzverif.NondetAddr("report.prover"), Merkle: zzverif.NondetBytes("report.merkle"), Owner: zzverif.NondetAddr("report.owner"), Start: zzverif.NondetRange("report.start", 0, 1<<40),
		Attestations: []*types.Attestation{{Provider: zzverif.NondetAddr("report.provider"), Complete: zzverif.NondetBool("report.complete")}}}
	g.k1.SetReportForm(g.ctx, rp)
	pg := types.PaymentGauge{Id: zzverif.NondetBytes("gauge.id"), Start: zzverif.NondetTime("gauge.start"), End: zzverif.NondetTime("gauge.end"),
		Coins: sdk.NewCoins(sdk.NewInt64Coin("ujkl", zzverif.NondetRange("gauge.amount", 1, 1<<60)))}
	g.k1.SetPaymentGauge(g.ctx, pg)

	gen, gen2 := g.zzRoundTrip()

	ga, af := g.k2.GetAttestationForm(g.ctx, at.Prover, at.Merkle, at.Owner, at.Start)
	zzverif.Assert(af && len(ga.Attestations) == 1 && zzverif.And(ga.Attestations[0].Provider == at.Attestations[0].Provider, ga.Attestations[0].Complete == at.Attestations[0].Complete), "C19/storage-attestation-form-survives")
	gr, rf := g.k2.GetReportForm(g.ctx, rp.Prover, rp.Merkle, rp.Owner, rp.Start)
	zzverif.Assert(rf && len(gr.Attestations) == 1 && zzverif.And(gr.Attestations[0].Provider == rp.Attestations[0].Provider, gr.Attestations[0].Complete == rp.Attestations[0].Complete), "C19/storage-report-form-survives")
	gg := g.k2.GetAllPaymentGauges(g.ctx)
	zzverif.Assert(len(gg) == 1 && zzverif.And(string(gg[0].Id) == string(pg.Id), zzverif.And(gg[0].End.Equal(pg.End), gg[0].Coins.IsEqual(pg.Coins))), "C19/storage-gauge-survives")
	zzverif.Assert(len(gen2.AttestForms) == len(gen.AttestForms) && len(gen2.ReportForms) == len(gen.ReportForms) && len(gen2.PaymentGauges) == len(gen.PaymentGauges), "C19/storage-second-export-lists-the-same-forms")
}

// VH_C19_storage_proofs: a file with one prover and that prover's proof record (what PostProof writes).
func VH_C19_storage_proofs()      { zzProofs(false) }
func VH_C19_storage_active_list() { zzProofs(true) }

func zzProofs(activeList bool) {
	g := zzGenSetup()
	f := zzFile()
	prover := zzverif.NondetAddr("prover")
	f.Proofs = []string{f.MakeProofKey(prover)}
	g.k1.SetFile(g.ctx, f)
	pr := types.FileProof{Prover: prover, Merkle: f.Merkle, Owner: f.Owner, Start: f.Start, LastProven: zzverif.NondetRange("proof.lastproven", 0, 1<<40), ChunkToProve: zzverif.NondetRange("proof.chunk", 0, 1<<40)}
	g.k1.SetProof(g.ctx, pr)
	prov := types.Providers{Address: prover, Ip: zzverif.NondetString("prov.ip"), Totalspace: "1000", BurnedContracts: "0", Creator: prover}
	g.k1.SetProviders(g.ctx, prov)

	gen, gen2 := g.zzRoundTrip()

	if activeList {
		// the exported list of active providers (providers holding proofs) is derived state: it must come out
		// the same from the imported state
		zzverif.Assert(len(gen2.ActiveProvidersList) == len(gen.ActiveProvidersList), "C19/storage-second-export-lists-the-same-active-providers")
		return
	}
	got, found := g.k2.GetFile(g.ctx, f.Merkle, f.Owner, f.Start)
	zzverif.Assert(found && zzSameFile(got, f), "C19/storage-file-with-prover-survives")
	gp, pf := g.k2.GetProofWithBuiltKey(g.ctx, []byte(f.Proofs[0]))
	zzverif.Assert(pf, "C19/storage-proof-record-survives")
	if pf {
		zzverif.Assert(zzverif.And(gp.LastProven == pr.LastProven, gp.ChunkToProve == pr.ChunkToProve), "C19/storage-proof-deadline-and-challenge-survive")
	}
}
