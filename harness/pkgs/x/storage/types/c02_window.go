package types

import "github.com/jackalLabs/canine-chain/v4/zzverif"

// VH_C02_window: a prover that proved in the previous proof window (or the file is young) is
// considered proven at height h by the real ProvenLastBlock / IsYoung.
// Independent spec: h lies in window j (S + jW <= h < S+(j+1)W); the prover's last proof L is
// at or after the start of window j-1.
func VH_C02_window() {
	S := zzverif.NondetRange("start", 0, 1<<62)
	W := zzverif.NondetRange("window", 2, 1<<62)
	h := zzverif.NondetRange("height", 0, 1<<62)
	L := zzverif.NondetRange("lastProven", 0, 1<<62)
	j := zzverif.NondetRange("j", 0, 1<<62)
	zzverif.Assume(h >= S && L <= h)
	zS, zW, zh, zL, zj := zzverif.ZOf(S), zzverif.ZOf(W), zzverif.ZOf(h), zzverif.ZOf(L), zzverif.ZOf(j)
	ws := zS.Add(zj.Mul(zW)) // start of the window containing h
	zzverif.Assume(ws.Le(zh) && zh.Lt(ws.Add(zW)))
	zzverif.Assume(zL.Ge(ws.Sub(zW))) // proved since the start of the previous window
	f := UnifiedFile{Start: S, ProofInterval: W}
	ok := f.ProvenLastBlock(h, L) || f.IsYoung(h)
	zzverif.Assert(ok, "C02/window-proven-or-young")
	zzverif.Cover("C02/window-reached")
}
