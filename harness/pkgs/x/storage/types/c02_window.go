package types

import "github.com/jackalLabs/canine-chain/v4/zzverif"

// VH_C02_window: a prover that proved in the previous proof window (or the file is young) is
// considered proven at height h by the real ProvenLastBlock / IsYoung.
// Independent spec: h lies in window j (S + jW <= h < S+(j+1)W); the prover's last proof L is
// at or after the start of window j-1.
func VH_C02_window() {
	S := zzverif.NondetRange("start", 0, 1<<62)
	W := zzverif.NondetRange("window", 2, 1<<62)
	h := zzverif.NondetRange("height", 0, 1<<62)
	L := zzverif.NondetRange("lastProven", 0, 1<<62)
	j := zzverif.NondetRange("j", 0, 1<<62)
	zzverif.Assume(h >= S && L <= h)
	zS, zW, zh, zL, zj := zzverif.ZOf(S), zzverif.ZOf(W), zzverif.ZOf(h), zzverif.ZOf(L), zzverif.ZOf(j)
	ws := zS.Add(zj.Mul(zW)) // start of the window containing h
	zzverif.Assume(ws.Le(zh) && zh.Lt(ws.Add(zW)))
	zzverif.Assume(zL.Ge(ws.Sub(zW))) // proved since the start of the previous window
	f := UnifiedFile{Start: S, ProofInterval: W}
	ok := f.ProvenLastBlock(h, L) || f.IsYoung(h)
	zzverif.Assert(ok, "C02/window-proven-or-young")
	zzverif.Cover("C02/window-reached")
}

// VH_C02_chunk: the chunk index the chain challenges a prover with after a successful proof exists in the
// file, for every file size, at every height and gas reading, whatever the seeded generator returns
// (A-RAND: Int63n(n) is in [0, n)). Real ResetChunkWithProof (the code SetProven / Prove run) and
// ResetChunk's own copy of the arithmetic are the same lines; the chunk size is case-split over a grid
// (FileSize / chunkSize with both symbolic is beyond the solvers).
func VH_C02_chunk() {
	grid := []int64{1, 2, 3, 1000, 1024, 10240, 1 << 30}
	chunk := grid[zzverif.NondetLen("chunk.grid", 0, len(grid)-1)]
	size := zzverif.NondetRange("filesize", 1, 1<<62)
	f := UnifiedFile{FileSize: size, Start: 0, ProofInterval: 10}
	p := FileProof{ChunkToProve: zzverif.NondetRange("old.chunk", 0, 1<<40)}
	ctx := zzverif.Ctx(zzverif.NondetRange("height", 0, 1<<40), zzverif.NondetTime("blocktime"), zzverif.NondetUint64("blockgas"))
	err := f.ResetChunkWithProof(ctx, &p, chunk)
	zzverif.Assert(err == nil, "C02/chunk-reset-never-fails")
	zzverif.Assert(p.ChunkToProve >= 0, "C02/challenged-chunk-index-non-negative")
	// chunk i covers bytes [i*chunk, (i+1)*chunk): it exists iff i*chunk < size
	zzverif.Assert(zzverif.ZOf(p.ChunkToProve).Mul(zzverif.ZOf(chunk)).Lt(zzverif.ZOf(size)), "C02/challenged-chunk-exists-in-the-file")
	zzverif.Cover("C02/chunk-reset-reached")
}
