package keeper

import (
	sdk "github.com/cosmos/cosmos-sdk/types"
	"github.com/jackalLabs/canine-chain/v4/x/storage/types"
	"github.com/jackalLabs/canine-chain/v4/zzverif"
)

// C06: the same step executed twice from the same state has the same ordered effects (store writes with
// their values, bank transfers, event types) and the same outcome. The two executions share inputs and
// pre-state only: every `range` over a Go map picks its iteration order independently in each (all
// orders explored, -map-orders), and every environment read (time.Now, unseeded randomness) is a fresh
// value per call.

func zzTwice(tag string, body func() bool) {
	s0 := zzverif.Snapshot()
	var ok1, ok2 bool
	pan1 := zzverif.Try(func() { ok1 = body() })
	e1 := zzverif.EffectsSince(s0)
	zzverif.Restore(s0)
	pan2 := zzverif.Try(func() { ok2 = body() })
	e2 := zzverif.EffectsSince(s0)
	zzverif.Cover("C06/" + tag + "-ran-twice")
	zzverif.Assert(pan1 == pan2 && ok1 == ok2, "C06/"+tag+"-same-outcome")
	zzverif.Assert(zzverif.SameEffects(e1, e2), "C06/"+tag+"-same-ordered-effects")
}

// VH_C06_reward_block: the storage reward block (map of provider sizes, sort, proportional payouts,
// prover removal and burn counters) over one file with two provers.
func VH_C06_reward_block() {
	w := zzRewardSetup(2, 1, 1<<40)
	zzTwice("reward-block", func() bool { w.e.k.ManageRewards(w.ctx); return true })
}

// VH_C06_postproof: PostProof including the seeded choice of the next challenged chunk.
func VH_C06_postproof() {
	e := zzSetup()
	zzverif.SetSliceBoundFor("Proofs", 1)
	valid := zzverif.NondetBool("payload.verifies")
	zzverif.Override("(*github.com/jackalLabs/canine-chain/v4/x/storage/types.UnifiedFile).ProvenThisBlock",
		func(f *types.UnifiedFile, height int64, lastProven int64) bool { return false })
	zzverif.Override("(*github.com/jackalLabs/canine-chain/v4/x/storage/types.UnifiedFile).VerifyProof",
		func(f *types.UnifiedFile, proofData []byte, chunk int64, item []byte) bool { return valid })
	zzverif.Assume(e.p.ChunkSize == 1024)
	msg := types.MsgPostProof{Creator: zzverif.NondetAddr("creator"), Item: zzverif.NondetBytes("item"), HashList: zzverif.NondetBytes("hashlist"),
		Merkle: zzverif.NondetBytes("merkle"), Owner: zzverif.NondetAddr("owner"), Start: zzverif.NondetRange("start", 0, 1<<40), ToProve: zzverif.NondetRange("toprove", 0, 1<<40)}
	zzTwice("postproof", func() bool {
		r, err := e.srv.PostProof(sdk.WrapSDKContext(e.ctx), &msg)
		return err == nil && r != nil && r.Success
	})
}
