package keeper

import (
	"strconv"

	sdk "github.com/cosmos/cosmos-sdk/types"
	"github.com/jackalLabs/canine-chain/v4/x/storage/types"
	"github.com/jackalLabs/canine-chain/v4/zzverif"
)

const zzPullFn = "(github.com/jackalLabs/canine-chain/v4/x/storage/keeper.Keeper).pullTokensFromGauges"

type zzProver struct {
	addr       string
	lastProven int64
	key        string
	met        bool
	burned0    int64
	bal0       zzverif.Z
	acc        sdk.AccAddress
}

// zzRewardWorld: one file with P provers in an otherwise empty storage store, a reward height, and the
// gauge payout cut to an arbitrary amount C credited to the module account (C12 covers the real gauges).
type zzRewardWorld struct {
	e       *zzEnv
	file    types.UnifiedFile
	provers []zzProver
	C       int64
	ctx     sdk.Context
	h       int64
}

func zzRewardSetup(maxProvers int, sizeLo, sizeHi int64) *zzRewardWorld {
	return zzRewardSetupOpt(maxProvers, sizeLo, sizeHi, true)
}

func zzRewardSetupOpt(maxProvers int, sizeLo, sizeHi int64, cutGauges bool) *zzRewardWorld {
	w := &zzRewardWorld{e: zzSetupClosed()}
	e := w.e
	w.C = zzverif.NondetRange("released.ujkl", 0, 100_000_000_000_000_000)
	C := w.C
	if cutGauges {
		zzverif.Override(zzPullFn, func(k Keeper, ctx sdk.Context) sdk.Coins {
			coins := sdk.NewCoins(sdk.NewInt64Coin("ujkl", C))
			e.bank.MintCoins(ctx, types.ModuleName, coins) // stands for the transfer out of the gauge accounts
			return coins
		})
	}
	// a reward block (ManageRewards is what RunRewardBlock calls at every height divisible by CheckWindow)
	w.h = e.h
	w.ctx = e.ctx
	P := zzverif.NondetLen("provers", 1, maxProvers)
	f := types.UnifiedFile{
		Merkle:        []byte("merkle-root-0001"),
		Owner:         "jkl1g9q5zs2pg9q5zs2pg9q5zs2pg9q5zs2p2trkks",
		Start:         zzverif.NondetRange("file.start", 0, 1<<40),
		Expires:       0,
		FileSize:      zzFileSize(sizeLo, sizeHi),
		ProofInterval: zzverif.NondetRange("file.interval", 2, 1<<40),
		MaxProofs:     int64(maxProvers),
		Note:          "{}",
	}
	zzverif.Assume(f.Start <= w.h)
	young := f.Start+f.ProofInterval >= w.h
	// start of the window before the one containing h (independent of getRoundedWindow: no modulo)
	j := zzverif.NondetRange("window.index", 0, 1<<40)
	ws := zzverif.ZOf(f.Start).Add(zzverif.ZOf(j).Mul(zzverif.ZOf(f.ProofInterval)))
	zzverif.Assume(ws.Le(zzverif.ZOf(w.h)) && zzverif.ZOf(w.h).Lt(ws.Add(zzverif.ZOf(f.ProofInterval))))
	lastWindowStart := ws.Sub(zzverif.ZOf(f.ProofInterval))
	for i := 0; i < P; i++ {
		tag := "prover" + strconv.Itoa(i)
		p := zzProver{addr: zzverif.NondetAddr(tag), lastProven: zzverif.NondetRange(tag+".lastProven", 0, 1<<40)}
		for _, q := range w.provers {
			zzverif.Assume(q.addr != p.addr) // a prover list has no duplicates (C17)
			if !zzverif.Thorough() {
				// quick tier: list position and address order coincide (the payout loop runs over the
				// address-sorted provers; thorough explores every relative order)
				zzverif.Assume(q.addr < p.addr)
			}
		}
		zzverif.Assume(p.lastProven <= w.h)
		p.key = f.MakeProofKey(p.addr)
		p.met = zzverif.Or(young, zzverif.ZOf(p.lastProven).Ge(lastWindowStart))
		p.burned0 = zzverif.NondetRange(tag+".burned", 0, 1<<30)
		p.acc, _ = sdk.AccAddressFromBech32(p.addr)
		zzverif.Assume(zzverif.And(!zzverif.Blocked(p.acc), !zzverif.IsModuleAddr(p.acc)))
		p.bal0 = e.bank.ZBal(p.acc, "ujkl")
		f.Proofs = append(f.Proofs, p.key)
		e.k.SetProof(e.ctx, types.FileProof{Prover: p.addr, Merkle: f.Merkle, Owner: f.Owner, Start: f.Start, LastProven: p.lastProven})
		e.k.SetProviders(e.ctx, types.Providers{Address: p.addr, Ip: "https://node.example", Totalspace: "1000", BurnedContracts: strconv.FormatInt(p.burned0, 10), Creator: p.addr})
		w.provers = append(w.provers, p)
	}
	e.k.SetFile(e.ctx, f)
	w.file = f
	return w
}

// VH_C03_bookkeeping: every prover that met its obligation stays and is counted once; every prover that
// missed it is removed from the file, loses its proof record and its provider's burn counter rises by one.
func VH_C03_bookkeeping() {
	maxP := 3
	w := zzRewardSetup(maxP, 1, 1<<40)
	e := w.e
	panicked := zzverif.Try(func() { e.k.ManageRewards(w.ctx) })
	zzverif.Assert(!panicked, "C03/reward-block-does-not-panic")
	if panicked {
		return
	}
	file, found := e.k.GetFile(w.ctx, w.file.Merkle, w.file.Owner, w.file.Start)
	zzverif.Assert(found, "C03/file-with-provers-survives")
	if !found {
		return
	}
	nMet := 0
	for _, p := range w.provers {
		listed := file.ContainsProver(p.addr)
		_, hasProof := e.k.GetProofWithBuiltKey(w.ctx, []byte(p.key))
		prov, _ := e.k.GetProviders(w.ctx, p.addr)
		if p.met {
			nMet++
			zzverif.Assert(listed, "C03/proven-prover-stays-listed")
			zzverif.Assert(hasProof, "C03/proven-prover-keeps-proof-record")
			zzverif.Assert(prov.BurnedContracts == strconv.FormatInt(p.burned0, 10), "C03/proven-prover-not-burned")
		} else {
			zzverif.Assert(!listed, "C03/missed-prover-removed")
			zzverif.Assert(!hasProof, "C03/missed-prover-proof-record-deleted")
			zzverif.Assert(prov.BurnedContracts == strconv.FormatInt(p.burned0+1, 10), "C03/missed-prover-burned-once")
		}
	}
	zzverif.Assert(len(file.Proofs) == nMet, "C03/prover-list-is-exactly-the-proven-ones")
	// payments: counted provers share C by size (all the same here), uncounted ones get nothing
	total := zzverif.ZOf(0)
	for _, p := range w.provers {
		paid := e.bank.ZBal(p.acc, "ujkl").Sub(p.bal0)
		total = total.Add(paid)
		if !p.met {
			zzverif.Assert(paid.Eq(zzverif.ZOf(0)), "C03/uncounted-prover-paid-nothing")
		} else {
			// size-weighted share: worth = FileSize, network total = FileSize * listed provers at block start
			share := zzverif.ZOf(w.C).Div(zzverif.ZOf(int64(len(w.provers))))
			zzverif.Assert(paid.Ge(share.Sub(zzverif.ZOf(1))) && paid.Le(share.Add(zzverif.ZOf(1))), "C03/counted-prover-paid-its-share")
		}
	}
	zzverif.Assert(total.Le(zzverif.ZOf(w.C)), "C03/sum-paid-at-most-released")
	zzverif.Cover("C03/reward-block-done")
}

// zzFileSize: within [1, 2^40] the size is symbolic; when the harness admits every int64 (C05) the
// extreme classes are enumerated as concrete representatives next to the symbolic ordinary range
// (keeps the wrap-around arithmetic concrete for the solvers).
func zzFileSize(lo, hi int64) int64 {
	if lo >= 1 {
		return zzverif.NondetRange("file.size", lo, hi)
	}
	classes := []int64{0, -1, -5000, 1 << 62, 1<<63 - 1, -1 << 63}
	c := zzverif.NondetLen("file.size.class", 0, len(classes))
	if c == len(classes) {
		return zzverif.NondetRange("file.size", 1, 1<<40)
	}
	return classes[c]
}

// VH_C03_two_files: one provider listed on two files in the same reward block. Each file is judged on its
// own: the provider stays on the files it proved, is removed from the ones it missed, and its burn counter
// rises by one per missed file.
func VH_C03_two_files() {
	e := zzSetupClosed()
	C := zzverif.NondetRange("released.ujkl", 0, 100_000_000_000_000_000)
	zzverif.Override(zzPullFn, func(k Keeper, ctx sdk.Context) sdk.Coins {
		coins := sdk.NewCoins(sdk.NewInt64Coin("ujkl", C))
		e.bank.MintCoins(ctx, types.ModuleName, coins)
		return coins
	})
	prover := zzverif.NondetAddr("prover")
	acc, _ := sdk.AccAddressFromBech32(prover)
	zzverif.Assume(zzverif.And(!zzverif.Blocked(acc), !zzverif.IsModuleAddr(acc)))
	burned0 := zzverif.NondetRange("prover.burned", 0, 1<<30)
	e.k.SetProviders(e.ctx, types.Providers{Address: prover, Ip: "https://node.example", Totalspace: "1000", BurnedContracts: strconv.FormatInt(burned0, 10), Creator: prover})
	type fileCase struct {
		f   types.UnifiedFile
		key string
		met bool
	}
	var files []fileCase
	for i, merkle := range []string{"merkle-root-0001", "merkle-root-0002"} {
		tag := "file" + strconv.Itoa(i)
		f := types.UnifiedFile{Merkle: []byte(merkle), Owner: "jkl1g9q5zs2pg9q5zs2pg9q5zs2pg9q5zs2p2trkks", Start: zzverif.NondetRange(tag+".start", 0, 1<<40),
			FileSize: zzverif.NondetRange(tag+".size", 1, 1<<40), ProofInterval: 7200, MaxProofs: 3, Note: "{}"} // the default window: two symbolic windows in one path condition leave the solvers undecided, and the window rule itself is VH_C03_bookkeeping's and C02's subject
		zzverif.Assume(f.Start <= e.h)
		young := f.Start+f.ProofInterval >= e.h
		j := zzverif.NondetRange(tag+".window.index", 0, 1<<40)
		ws := zzverif.ZOf(f.Start).Add(zzverif.ZOf(j).Mul(zzverif.ZOf(f.ProofInterval)))
		zzverif.Assume(ws.Le(zzverif.ZOf(e.h)) && zzverif.ZOf(e.h).Lt(ws.Add(zzverif.ZOf(f.ProofInterval))))
		last := zzverif.NondetRange(tag+".lastProven", 0, 1<<40)
		zzverif.Assume(last <= e.h)
		c := fileCase{key: f.MakeProofKey(prover)}
		c.met = zzverif.Or(young, zzverif.ZOf(last).Ge(ws.Sub(zzverif.ZOf(f.ProofInterval))))
		f.Proofs = []string{c.key}
		e.k.SetProof(e.ctx, types.FileProof{Prover: prover, Merkle: f.Merkle, Owner: f.Owner, Start: f.Start, LastProven: last})
		e.k.SetFile(e.ctx, f)
		c.f = f
		files = append(files, c)
	}
	panicked := zzverif.Try(func() { e.k.ManageRewards(e.ctx) })
	zzverif.Assert(!panicked, "C03/reward-block-does-not-panic")
	if panicked {
		return
	}
	missed := int64(0)
	for _, c := range files {
		file, found := e.k.GetFile(e.ctx, c.f.Merkle, c.f.Owner, c.f.Start)
		_, hasProof := e.k.GetProofWithBuiltKey(e.ctx, []byte(c.key))
		if c.met {
			zzverif.Assert(found && file.ContainsProver(prover), "C03/proven-prover-stays-listed")
			zzverif.Assert(hasProof, "C03/proven-prover-keeps-proof-record")
		} else {
			missed++
			zzverif.Assert(!found || !file.ContainsProver(prover), "C03/missed-prover-removed")
			zzverif.Assert(!hasProof, "C03/missed-prover-proof-record-deleted")
		}
	}
	prov, _ := e.k.GetProviders(e.ctx, prover)
	zzverif.Assert(prov.BurnedContracts == strconv.FormatInt(burned0+missed, 10), "C03/burn-counter-rises-once-per-missed-file")
	zzverif.Cover("C03/two-files-done")
}
