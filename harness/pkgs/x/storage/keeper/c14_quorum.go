package keeper

import (
	sdk "github.com/cosmos/cosmos-sdk/types"
	"github.com/jackalLabs/canine-chain/v4/x/storage/types"
	"github.com/jackalLabs/canine-chain/v4/zzverif"
)

// C14: one attest / report signature from an arbitrary well-formed state. A signature acts (refreshes the
// prover's deadline, or removes the prover) only when the form exists, names the signer, and the entries
// complete after this signature reach the configured minimum; otherwise the only possible change is the
// signer's own flag on that form. Entries are completed only by this rule (a flag is set only on entries
// naming the signer), so "complete entries" are signatures of distinct named providers as long as a form
// names pairwise distinct providers, which is what form creation establishes (VH_C14_form_*).

func zzFormWF() {
	zzverif.WFKey("storage", "AttestationForm", "Attestation/value/", "$Prover", "/", "hex:$Merkle", "/", "$Owner", "/", "dec:$Start")
	zzverif.WFKey("storage", "ReportForm", "Report/value/", "$Prover", "/", "hex:$Merkle", "/", "$Owner", "/", "dec:$Start")
	// forms, files and proof records are written for registered providers and file owners: account strings
	zzverif.WFAddr("AttestationForm", "Prover", "Owner")
	zzverif.WFAddr("ReportForm", "Prover", "Owner")
	zzverif.WFAddr("FileProof", "Prover", "Owner")
	zzverif.WFAddr("UnifiedFile", "Owner")
}

// zzTally: does the form name the signer, and how many entries are complete once the signer has signed.
func zzTally(entries []*types.Attestation, signer string) (named bool, complete int64) {
	for _, a := range entries {
		mine := a.Provider == signer
		named = zzverif.Or(named, mine)
		if zzverif.Or(a.Complete, mine) {
			complete++
		}
	}
	return
}

func zzDistinct(entries []*types.Attestation) bool {
	ok := true
	for i := range entries {
		for j := i + 1; j < len(entries); j++ {
			ok = zzverif.And(ok, entries[i].Provider != entries[j].Provider)
		}
	}
	return ok
}

// zzOnlySignerFlag: post equals pre except that entries naming the signer are complete.
func zzOnlySignerFlag(pre, post []*types.Attestation, signer string) bool {
	if len(pre) != len(post) {
		return false
	}
	ok := true
	for i := range pre {
		ok = zzverif.And(ok, pre[i].Provider == post[i].Provider)
		ok = zzverif.And(ok, post[i].Complete == zzverif.Or(pre[i].Complete, pre[i].Provider == signer))
	}
	return ok
}

func zzSameEntries(pre, post []*types.Attestation) bool {
	if len(pre) != len(post) {
		return false
	}
	ok := true
	for i := range pre {
		ok = zzverif.And(ok, zzverif.And(pre[i].Provider == post[i].Provider, pre[i].Complete == post[i].Complete))
	}
	return ok
}

func VH_C14_attest() {
	e := zzSetup()
	zzFormWF()
	zzverif.SetSliceBoundFor("Attestations", 3)
	zzverif.SetSliceBoundFor("Proofs", 2)
	msg := types.MsgAttest{
		Creator: zzverif.NondetAddr("creator"),
		Prover:  zzverif.NondetString("prover"),
		Merkle:  zzverif.NondetBytes("merkle"),
		Owner:   zzverif.NondetString("owner"),
		Start:   zzverif.NondetRange("start", 0, 1<<40),
	}
	form, found := e.k.GetAttestationForm(e.ctx, msg.Prover, msg.Merkle, msg.Owner, msg.Start)
	named, complete := false, int64(0)
	var preEntries []*types.Attestation
	if found {
		named, complete = zzTally(form.Attestations, msg.Creator)
		for _, a := range form.Attestations { // the handler flags entries in place: keep a copy
			preEntries = append(preEntries, &types.Attestation{Provider: a.Provider, Complete: a.Complete})
		}
	}
	// the deadline this form is about, and an arbitrary other proof record
	pkey := string(types.ProofKey(msg.Prover, msg.Merkle, msg.Owner, msg.Start))
	preProof, hadProof := e.k.GetProofWithBuiltKey(e.ctx, []byte(pkey))
	okey := string(types.ProofKey(zzverif.NondetString("other.prover"), zzverif.NondetBytes("other.merkle"), zzverif.NondetString("other.owner"), zzverif.NondetRange("other.start", 0, 1<<40)))
	zzverif.Assume(okey != pkey)
	preOther, hadOther := e.k.GetProofWithBuiltKey(e.ctx, []byte(okey))

	err, pan := zzverif.Deliver(func() error { _, er := e.srv.Attest(sdk.WrapSDKContext(e.ctx), &msg); return er })
	zzverif.Assert(zzverif.Ok(err, pan), "C14/attest-message-never-fails")

	postForm, pfound := e.k.GetAttestationForm(e.ctx, msg.Prover, msg.Merkle, msg.Owner, msg.Start)
	postProof, hasProof := e.k.GetProofWithBuiltKey(e.ctx, []byte(pkey))
	postOther, hasOther := e.k.GetProofWithBuiltKey(e.ctx, []byte(okey))
	zzverif.Assert(hasOther == hadOther && (!hasOther || zzverif.And(postOther.LastProven == preOther.LastProven, postOther.ChunkToProve == preOther.ChunkToProve)), "C14/attest-touches-no-other-proof")
	zzverif.Assert(hasProof == hadProof, "C14/attest-creates-or-removes-no-proof-record")
	refreshed := hasProof && hadProof && postProof.LastProven != preProof.LastProven
	consumed := found && !pfound
	if zzverif.Or(refreshed, consumed) {
		zzverif.Cover("C14/attest-acts")
		zzverif.Assert(found, "C14/attest-acts-only-on-an-existing-form")
		zzverif.Assert(named, "C14/attest-acts-only-for-a-named-signer")
		zzverif.Assert(complete >= e.p.AttestMinToPass, "C14/attest-acts-only-on-quorum")
		zzverif.Assert(consumed, "C14/acting-attest-consumes-the-form")
		if hasProof && hadProof {
			zzverif.Assert(postProof.LastProven == e.h, "C14/acting-attest-refreshes-to-this-block")
			zzverif.Assert(zzverif.And(postProof.ChunkToProve == preProof.ChunkToProve, postProof.Prover == preProof.Prover), "C14/acting-attest-keeps-the-challenge")
		}
		return
	}
	zzverif.Assert(pfound == found, "C14/attest-creates-no-form")
	if !found || !pfound {
		return
	}
	if named {
		zzverif.Cover("C14/attest-recorded-below-quorum")
		// below quorum, or quorum reached on a form whose file / proof record is gone (nothing to refresh)
		zzverif.Assert(zzverif.Or(zzOnlySignerFlag(preEntries, postForm.Attestations, msg.Creator), zzSameEntries(preEntries, postForm.Attestations)), "C14/attest-records-only-the-signers-own-flag")
	} else {
		zzverif.Cover("C14/attest-by-unlisted-signer")
		zzverif.Assert(zzSameEntries(preEntries, postForm.Attestations), "C14/unlisted-signer-changes-nothing")
	}
}

func VH_C14_report() {
	e := zzSetup()
	zzFormWF()
	zzverif.SetSliceBoundFor("Attestations", 3)
	zzverif.SetSliceBoundFor("Proofs", 2)
	msg := types.MsgReport{
		Creator: zzverif.NondetAddr("creator"),
		Prover:  zzverif.NondetString("prover"),
		Merkle:  zzverif.NondetBytes("merkle"),
		Owner:   zzverif.NondetString("owner"),
		Start:   zzverif.NondetRange("start", 0, 1<<40),
	}
	form, found := e.k.GetReportForm(e.ctx, msg.Prover, msg.Merkle, msg.Owner, msg.Start)
	named, complete := false, int64(0)
	var preEntries []*types.Attestation
	if found {
		named, complete = zzTally(form.Attestations, msg.Creator)
		for _, a := range form.Attestations {
			preEntries = append(preEntries, &types.Attestation{Provider: a.Provider, Complete: a.Complete})
		}
	}
	pkey := string(types.ProofKey(msg.Prover, msg.Merkle, msg.Owner, msg.Start))
	_, hadProof := e.k.GetProofWithBuiltKey(e.ctx, []byte(pkey))
	preFile, hadFile := e.k.GetFile(e.ctx, msg.Merkle, msg.Owner, msg.Start)
	listed := hadFile && preFile.ContainsProver(msg.Prover)
	preLen := len(preFile.Proofs)
	okey := string(types.ProofKey(zzverif.NondetString("other.prover"), zzverif.NondetBytes("other.merkle"), zzverif.NondetString("other.owner"), zzverif.NondetRange("other.start", 0, 1<<40)))
	zzverif.Assume(okey != pkey)
	_, hadOther := e.k.GetProofWithBuiltKey(e.ctx, []byte(okey))

	err, pan := zzverif.Deliver(func() error { _, er := e.srv.Report(sdk.WrapSDKContext(e.ctx), &msg); return er })

	postForm, pfound := e.k.GetReportForm(e.ctx, msg.Prover, msg.Merkle, msg.Owner, msg.Start)
	_, hasProof := e.k.GetProofWithBuiltKey(e.ctx, []byte(pkey))
	postFile, hasFile := e.k.GetFile(e.ctx, msg.Merkle, msg.Owner, msg.Start)
	_, hasOther := e.k.GetProofWithBuiltKey(e.ctx, []byte(okey))
	zzverif.Assert(hasOther == hadOther, "C14/report-touches-no-other-proof")
	zzverif.Assert(hasFile == hadFile, "C14/report-keeps-the-file")
	removed := (hadProof && !hasProof) || (hasFile && hadFile && len(postFile.Proofs) != preLen)
	consumed := found && !pfound
	if zzverif.Or(removed, consumed) {
		zzverif.Cover("C14/report-acts")
		zzverif.Assert(zzverif.Ok(err, pan), "C14/report-acts-only-on-success")
		zzverif.Assert(found, "C14/report-acts-only-on-an-existing-form")
		zzverif.Assert(named, "C14/report-acts-only-for-a-named-signer")
		zzverif.Assert(complete >= e.p.AttestMinToPass, "C14/report-acts-only-on-quorum")
		zzverif.Assert(consumed, "C14/acting-report-consumes-the-form")
		if hasFile && hadFile {
			zzverif.Assert(!postFile.ContainsProver(msg.Prover), "C14/acting-report-removes-the-prover")
			if listed {
				zzverif.Assert(len(postFile.Proofs) == preLen-1, "C14/acting-report-removes-only-the-prover")
			} else {
				zzverif.Assert(len(postFile.Proofs) == preLen, "C14/acting-report-removes-only-the-prover")
			}
		}
		return
	}
	zzverif.Assert(hasProof == hadProof, "C14/report-creates-no-proof-record")
	zzverif.Assert(pfound == found, "C14/report-creates-no-form")
	if !found || !pfound {
		return
	}
	if zzverif.And(named, zzverif.Ok(err, pan)) {
		zzverif.Cover("C14/report-recorded-below-quorum")
		zzverif.Assert(zzOnlySignerFlag(preEntries, postForm.Attestations, msg.Creator), "C14/report-records-only-the-signers-own-flag")
	} else {
		zzverif.Cover("C14/report-without-effect")
		zzverif.Assert(zzSameEntries(preEntries, postForm.Attestations), "C14/unlisted-or-failed-report-changes-nothing")
	}
}
