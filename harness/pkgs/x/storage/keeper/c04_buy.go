package keeper

import (
	sdk "github.com/cosmos/cosmos-sdk/types"
	alltypes "github.com/jackalLabs/canine-chain/v4/types"
	"github.com/jackalLabs/canine-chain/v4/x/storage/types"
	"github.com/jackalLabs/canine-chain/v4/zzverif"
)

const zzCostFn = "(github.com/jackalLabs/canine-chain/v4/x/storage/keeper.Keeper).GetStorageCost"

// zzPct is floor(d * pct / 100) for a whole percentage.
func zzPct(d zzverif.Z, pct int64) zzverif.Z { return d.Mul(zzverif.ZOf(pct)).Div(zzverif.ZOf(100)) }

// VH_C04_buy_storage: contract of the real BuyStorage for every size, duration, referral choice,
// existing-plan state and ratio setting. The price function is cut (Override): the purchase is charged
// whatever the chain's own price function returns, the subject here is how that amount is charged and split.
func zzBuyStorage(mode string) {
	// quick: the default commission (25) and liquidity ratio (40); the share arithmetic is proved for every
	// whole percentage by the kernel, thorough explores a grid of settings through the handler as well
	zzRatioFixed = map[string]int64{"param.ReferralCommission": 25, "param.PolRatio": 40}
	if zzverif.Thorough() {
		zzRatioFixed = nil
		zzRatioGrid = []int64{25, 40}
	}
	e := zzSetup()
	// no gauge record yet under the id this purchase derives (merging a deposit into an existing gauge is
	// C12's subject and multiplies the paths eightfold)
	zzverif.AssumeNoKeysWithPrefix("storage", types.PaymentGaugeKeyPrefix)
	switch mode {
	case "fresh": // no plan yet; recipient and referral given as addresses (no name resolution)
		zzverif.AssumeNoKeysWithPrefix("storage", types.StoragePaymentInfoKeyPrefix)
		zzverif.AssumeNoKeysWithPrefix("rns", "Names/value/")
	case "plan": // an arbitrary existing plan (live -> upgrade pricing, or expired)
		zzverif.AssumeNoKeysWithPrefix("rns", "Names/value/")
	case "names": // recipient / referral may be RNS names
		zzverif.AssumeNoKeysWithPrefix("storage", types.StoragePaymentInfoKeyPrefix)
	}
	zzverif.Assume(e.p.ReferralCommission+e.p.PolRatio <= 100)
	zzverif.Assume(e.p.PricePerTbPerMonth == 8) // irrelevant under the price cut; fixed so that replays price something
	// cut: the price function returns an arbitrary non-negative amount (a second call prices the old plan)
	zzverif.Override(zzCostFn, func(k Keeper, ctx sdk.Context, gbs int64, hours int64) sdk.Int {
		return sdk.NewInt(zzverif.NondetRange("storage.cost", 0, 1<<60))
	})
	msg := types.MsgBuyStorage{
		Creator:      zzverif.NondetAddr("creator"),
		ForAddress:   zzverif.NondetString("for"),
		DurationDays: zzverif.NondetRange("days", 0, 100000), // beyond ~106751 days time.Duration wraps: outside the claim
		Bytes:        zzverif.NondetInt64("bytes"),
		PaymentDenom: zzverif.NondetString("denom"),
		Referral:     zzverif.NondetString("referral"),
	}
	payer, perr := sdk.AccAddressFromBech32(msg.Creator)
	zzverif.Assume(perr == nil) // ValidateBasic
	zzverif.Assume(zzverif.And(!zzverif.IsModuleAddr(payer), !zzverif.Blocked(payer)))
	pol, _ := alltypes.GetPOLAccount()
	zzverif.Assume(!zzverif.Blocked(pol))
	// the referral, if it resolves, is an ordinary account
	refAcc, rerr := e.k.rnsKeeper.Resolve(e.ctx, msg.Referral)
	referred := rerr == nil && refAcc.String() != msg.Creator
	if rerr == nil {
		zzverif.Assume(zzverif.And(!zzverif.IsModuleAddr(refAcc), !zzverif.Blocked(refAcc)))
		zzverif.Assume(string(refAcc) != string(pol))
		// an ordinary 20-byte account: it cannot coincide with a hash-derived gauge account (A-HASH, preimage)
		zzverif.Assume(len(refAcc) == 20)
	}
	other := sdk.AccAddress(zzverif.NondetBytes("other.account")) // Skolem account
	zzverif.Assume(len(other) == 20 && string(other) != string(payer) && string(other) != string(pol))
	zzverif.Assume(zzverif.And(!zzverif.IsModuleAddr(other), rerr != nil || string(other) != string(refAcc)))

	bal := func(a sdk.AccAddress) zzverif.Z { return e.bank.ZBal(a, "ujkl") }
	pay0, pol0, oth0 := bal(payer), bal(pol), bal(other)
	// the payer can afford any price (so that the natively replayed purchase, priced by the real price
	// function instead of the cut, succeeds as well); insufficient funds is covered by the failure branch
	if zzverif.NondetBool("payer.rich") {
		zzverif.Assume(pay0.Ge(zzverif.ZOf(1 << 62).Mul(zzverif.ZOf(1 << 40))))
	}
	mod0, fee0, sup0 := e.bank.ZModuleBal(types.ModuleName, "ujkl"), e.bank.ZModuleBal(zzFeeCollector, "ujkl"), e.bank.ZSupply("ujkl")
	var ref0 zzverif.Z
	if rerr == nil {
		ref0 = bal(refAcc)
	}

	err, pan := zzverif.Deliver(func() error { _, er := e.srv.BuyStorage(sdk.WrapSDKContext(e.ctx), &msg); return er })

	if !zzverif.Ok(err, pan) {
		zzverif.Assert(bal(payer).Eq(pay0), "C04/failed-purchase-debits-nothing")
		zzverif.Cover("C04/buy-fails")
		return
	}
	zzverif.Cover("C04/buy-succeeds")
	if referred {
		zzverif.Cover("C04/buy-referred")
	}
	zzverif.Assert(msg.PaymentDenom == "ujkl", "C04/only-ujkl")
	D := pay0.Sub(bal(payer)) // what the payer was charged
	zzverif.Assert(D.Ge(zzverif.ZOf(0)), "C04/debit-non-negative")
	// the gauge created by this purchase is funded with exactly what it records
	// shares
	discount := int64(0)
	if referred {
		discount = 10
		if msg.DurationDays > 365 {
			discount = 5
		}
	}
	polShare := zzPct(D, e.p.PolRatio-discount)
	refShare := zzPct(D, e.p.ReferralCommission)
	gotPol := bal(pol).Sub(pol0)
	zzverif.Assert(gotPol.Sub(polShare).Le(zzverif.ZOf(1)) && polShare.Sub(gotPol).Le(zzverif.ZOf(1)), "C04/liquidity-share-within-one-unit")
	if referred && string(refAcc) != string(payer) {
		gotRef := bal(refAcc).Sub(ref0)
		zzverif.Assert(gotRef.Sub(refShare).Le(zzverif.ZOf(1)) && refShare.Sub(gotRef).Le(zzverif.ZOf(1)), "C04/referrer-share-within-one-unit")
	}
	if !referred {
		gotFee := e.bank.ZModuleBal(zzFeeCollector, "ujkl").Sub(fee0)
		zzverif.Assert(gotFee.Sub(refShare).Le(zzverif.ZOf(1)) && refShare.Sub(gotFee).Le(zzverif.ZOf(1)), "C04/stakers-share-within-one-unit")
	}
	kept := e.bank.ZModuleBal(types.ModuleName, "ujkl").Sub(mod0)
	zzverif.Assert(kept.Ge(zzverif.ZOf(0)), "C04/credits-never-exceed-the-debit")
	zzverif.Assert(bal(other).Eq(oth0), "C04/no-other-account-changes")
	zzverif.Assert(e.bank.ZSupply("ujkl").Eq(sup0), "C04/supply-unchanged")
}

func VH_C04_buy_fresh()  { zzBuyStorage("fresh") }
func VH_C04_buy_plan()   { zzBuyStorage("plan") }
func VH_C04_buy_names()  { zzBuyStorage("names") }

// VH_C04_share_kernel: the percentage pipeline used for every share (sdk.NewDec(p).QuoInt64(100), then
// amount.ToDec().Mul(ratio).TruncateInt(), real sdk.Dec code) equals floor(amount*p/100) for every
// amount and every whole percentage.
func VH_C04_share_kernel() {
	amount := zzverif.NondetRange("amount", 0, 1<<62)
	p := zzverif.NondetRange("percent", 0, 100)
	ratio := sdk.NewDec(p).QuoInt64(100)
	got := sdk.NewInt(amount).ToDec().Mul(ratio).TruncateInt()
	zzverif.Assert(zzverif.ZOfBig(got.BigInt()).Eq(zzPct(zzverif.ZOf(amount), p)), "C04/share-is-floor-of-percentage")
	// the provider cut ratio 1 - ref - pol - discount with whole percentages
	q := zzverif.NondetRange("percent2", 0, 100)
	zzverif.Assume(p+q <= 100)
	spr := sdk.NewDec(1).Sub(sdk.NewDec(p).QuoInt64(100)).Sub(sdk.NewDec(q).QuoInt64(100))
	cut := sdk.NewInt(amount).ToDec().Mul(spr).TruncateInt()
	zzverif.Assert(zzverif.ZOfBig(cut.BigInt()).Eq(zzPct(zzverif.ZOf(amount), 100-p-q)), "C04/provider-cut-is-floor-of-remaining-percentage")
	zzverif.Cover("C04/share-kernel-reached")
}
