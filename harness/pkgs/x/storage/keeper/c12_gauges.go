package keeper

import (
	"time"

	sdk "github.com/cosmos/cosmos-sdk/types"
	"github.com/jackalLabs/canine-chain/v4/x/storage/types"
	"github.com/jackalLabs/canine-chain/v4/zzverif"
)

// zzSetupClosed: the real storage keeper over an initially EMPTY storage store (closed world: iteration
// is available); the harness populates it through the real setters.
func zzSetupClosed() *zzEnv {
	zzverif.OpenStore("rns")
	zzverif.OpenStore("oracle")
	zzverif.WFKey("rns", "Names", "Names/value/", "$Name", ".", "$Tld", "/")
	zzverif.WFAddr("Names", "Value")
	return zzBuild()
}

// VH_C12_one_gauge: one live gauge, one denomination, an arbitrary amount already released before
// (inductive pre-state: the gauge account holds deposit - released), the real pullTokensFromGauges at an
// arbitrary block time. Times in whole microseconds, duration below 2^43 us (~100 days .. see bounds).
func VH_C12_one_gauge() { zzOneGauge(false) }

// VH_C12_one_gauge_grid: the same contract with the duration and the elapsed time taken from a grid of
// concrete values that includes sub-millisecond and sub-second remainders (the deposit stays arbitrary):
// with concrete times the fixed-point arithmetic is linear in the deposit and every obligation is decided,
// also for code that computes the fraction in another unit.
func VH_C12_one_gauge_grid() { zzOneGauge(true) }

func zzOneGauge(grid bool) {
	e := zzSetupClosed()
	A := zzverif.NondetRange("deposit", 1, 100_000_000_000_000_000)
	startUs := zzverif.NondetRange("start.us", 0, 1<<50)
	var T, el int64
	if grid {
		ts := []int64{1500, 2_000_700, 86_400_000_000, 2_592_000_000_000}
		T = ts[zzverif.NondetLen("duration.grid", 0, len(ts)-1)]
		es := []int64{700, 1_000_300, 43_200_000_001, 2_000_000_000_999}
		el = es[zzverif.NondetLen("elapsed.grid", 0, len(es)-1)]
	} else {
		T = zzverif.NondetRange("duration.us", 0, 1<<45)
		el = zzverif.NondetRange("elapsed.us", 0, 1<<46)
	}
	start := time.UnixMicro(startUs)
	end := time.UnixMicro(startUs + T)
	now := time.UnixMicro(startUs + el)
	pg := types.PaymentGauge{Id: zzverif.NondetBytes("gauge.id"), Start: start, End: end, Coins: sdk.NewCoins(sdk.NewInt64Coin("ujkl", A))}
	zzverif.Assume(len(pg.Id) == 32)
	e.k.SetPaymentGauge(e.ctx, pg)
	acc, _ := types.GetGaugeAccount(pg)
	// pre-state (inductive): earlier reward blocks released some amount that is at most what the closed
	// form gives now (the closed form is monotone in time: VH_C12_monotone)
	zA := zzverif.ZOf(A)
	prevReleased := zzverif.ZOf(zzverif.NondetRange("previously.released", 0, 100_000_000_000_000_000))
	zzverif.Assume(prevReleased.Le(zA))
	if T > 0 && el <= T {
		zzverif.Assume(prevReleased.Le(zzSpecRelease(A, el, T)))
	}
	bal0 := e.bank.ZBal(acc, "ujkl")
	zzverif.Assume(bal0.Eq(zA.Sub(prevReleased))) // gauge account holds deposit minus earlier releases
	mod0 := e.bank.ZModuleBal(types.ModuleName, "ujkl")
	ctx := e.ctx.WithBlockTime(now)

	var coins sdk.Coins
	panicked := zzverif.Try(func() { coins = e.k.pullTokensFromGauges(ctx) })
	zzverif.Assert(!panicked, "C12/pull-never-panics")
	if panicked {
		return
	}
	released := zzverif.ZOfBig(coins.AmountOf("ujkl").BigInt())
	zzverif.Assert(released.Ge(zzverif.ZOf(0)), "C12/released-non-negative")
	zzverif.Assert(e.bank.ZBal(acc, "ujkl").Eq(bal0.Sub(released)), "C12/gauge-account-debited-by-release")
	zzverif.Assert(e.bank.ZModuleBal(types.ModuleName, "ujkl").Eq(mod0.Add(released)), "C12/module-credited-by-release")
	cum := prevReleased.Add(released)
	zzverif.Assert(cum.Le(zA), "C12/never-more-than-deposit")
	if T > 0 && el <= T {
		zzverif.Cover("C12/inside-interval")
		zzverif.Assert(cum.Eq(zzSpecRelease(A, el, T)), "C12/cumulative-release-independent-of-earlier-withdrawals")
		// (that the closed form is the elapsed fraction of the deposit within one unit: VH_C12_band)
	} else {
		zzverif.Cover("C12/outside-interval")
		zzverif.Assert(released.Eq(zzverif.ZOf(0)), "C12/nothing-released-outside-interval")
	}
}

// zzSpecRelease: the closed form the chain computes (deposit times elapsed fraction, 18-decimal fixed
// point with banker's rounding, truncated) - used only to describe the inductive pre-state.
func zzSpecRelease(A, el, T int64) zzverif.Z {
	left := sdk.NewDec(T - el)
	ratio := sdk.NewDec(1).Sub(left.Quo(sdk.NewDec(T)))
	return zzverif.ZOfBig(ratio.Mul(sdk.NewDec(A)).TruncateInt().BigInt())
}

// VH_C12_monotone: the closed form is non-decreasing in time (so cumulative releases never shrink and
// the subtraction in pullTokensFromGauges never goes negative).
func VH_C12_monotone() {
	A := zzverif.NondetRange("deposit", 1, 100_000_000_000_000_000)
	T := zzverif.NondetRange("duration.us", 1, 1<<45)
	e1 := zzverif.NondetRange("elapsed1.us", 0, 1<<45)
	e2 := zzverif.NondetRange("elapsed2.us", 0, 1<<45)
	zzverif.Assume(e1 <= e2 && e2 <= T)
	zzverif.Assert(zzSpecRelease(A, e1, T).Le(zzSpecRelease(A, e2, T)), "C12/closed-form-monotone-in-time")
	zzverif.Cover("C12/monotone-reached")
}

// VH_C12_band: the closed form is the elapsed fraction of the deposit, rounded down, within one base unit;
// nothing at the start, everything at the end.
func VH_C12_band() {
	A := zzverif.NondetRange("deposit", 1, 100_000_000_000_000_000)
	T := zzverif.NondetRange("duration.us", 1, 1<<45)
	el := zzverif.NondetRange("elapsed.us", 0, 1<<45)
	zzverif.Assume(el <= T)
	r := zzSpecRelease(A, el, T)
	exact := zzverif.ZOf(A).Mul(zzverif.ZOf(el)).Div(zzverif.ZOf(T))
	zzverif.Assert(r.Ge(exact.Sub(zzverif.ZOf(1))), "C12/release-at-least-fraction-minus-one")
	zzverif.Assert(r.Le(exact.Add(zzverif.ZOf(1))), "C12/release-at-most-fraction-plus-one")
	zzverif.Assert(r.Le(zzverif.ZOf(A)), "C12/release-at-most-deposit")
	zzverif.Assert(r.Ge(zzverif.ZOf(0)), "C12/release-non-negative")
	if el == T {
		zzverif.Assert(r.Eq(zzverif.ZOf(A)), "C12/everything-released-at-end")
	}
	if el == 0 {
		zzverif.Assert(r.Eq(zzverif.ZOf(0)), "C12/nothing-released-at-start")
	}
	zzverif.Cover("C12/band-reached")
}

// VH_C12_same_block: two gauges created in one block (two purchases), then every recorded gauge is
// backed by exactly the amount it records - also when both purchases have equal end time and amount.
func VH_C12_same_block() {
	e := zzSetupClosed()
	a1 := zzverif.NondetRange("amount1", 1, 1<<60)
	a2 := zzverif.NondetRange("amount2", 1, 1<<60)
	end1 := time.UnixMicro(zzverif.NondetRange("end1.us", 0, 1<<50))
	end2 := time.UnixMicro(zzverif.NondetRange("end2.us", 0, 1<<50))
	var firstAcc sdk.AccAddress
	fund := func(amount int64, end time.Time, first bool) {
		coins := sdk.NewCoins(sdk.NewInt64Coin("ujkl", amount))
		g := e.k.NewGauge(e.ctx, coins, end)
		acc, _ := types.GetGaugeAccount(g)
		// what BuyStorage / PostFile do right after NewGauge (the module account has been paid before)
		e.bank.MintCoins(e.ctx, types.ModuleName, coins)
		zzverif.Assume(!zzverif.Blocked(acc))
		if first || string(acc) != string(firstAcc) {
			zzverif.Assume(e.bank.ZBal(acc, "ujkl").Eq(zzverif.ZOf(0))) // a fresh hash-derived account starts empty
		}
		if first {
			firstAcc = acc
		}
		err := e.bank.SendCoinsFromModuleToAccount(e.ctx, types.ModuleName, acc, coins)
		zzverif.Assume(err == nil)
	}
	fund(a1, end1, true)
	fund(a2, end2, false)
	all := e.k.GetAllPaymentGauges(e.ctx)
	total := zzverif.ZOf(0)
	for _, g := range all {
		acc, _ := types.GetGaugeAccount(g)
		rec := zzverif.ZOfBig(g.Coins.AmountOf("ujkl").BigInt())
		zzverif.Assert(e.bank.ZBal(acc, "ujkl").Eq(rec), "C12/gauge-records-what-its-account-holds")
		total = total.Add(rec)
	}
	zzverif.Assert(total.Eq(zzverif.ZOf(a1).Add(zzverif.ZOf(a2))), "C12/every-deposit-is-recorded")
	zzverif.Cover("C12/same-block-reached")
}
