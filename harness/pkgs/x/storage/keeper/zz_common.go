package keeper

import (
	sdk "github.com/cosmos/cosmos-sdk/types"
	authtypes "github.com/cosmos/cosmos-sdk/x/auth/types"
	oraclekeeper "github.com/jackalLabs/canine-chain/v4/x/oracle/keeper"
	rnskeeper "github.com/jackalLabs/canine-chain/v4/x/rns/keeper"
	"github.com/jackalLabs/canine-chain/v4/x/storage/types"
	"github.com/jackalLabs/canine-chain/v4/zzverif"
)

// zzAccounts models x/auth's account keeper as far as the storage module uses it.
type zzAccounts struct{}

func (zzAccounts) GetAccount(ctx sdk.Context, addr sdk.AccAddress) authtypes.AccountI { return nil }
func (zzAccounts) GetModuleAddress(moduleName string) sdk.AccAddress              { return zzverif.ModuleAddr(moduleName) }
func (zzAccounts) HasAccount(ctx sdk.Context, addr sdk.AccAddress) bool {
	return zzverif.TblGet("accounts", addr, "exists").Sign() != 0
}
func (zzAccounts) SetAccount(ctx sdk.Context, acc authtypes.AccountI) {
	zzverif.TblSet("accounts", acc.GetAddress(), "exists", sdk.OneInt().BigInt())
}
func (zzAccounts) NewAccountWithAddress(ctx sdk.Context, addr sdk.AccAddress) authtypes.AccountI {
	return authtypes.NewBaseAccountWithAddress(addr)
}

const zzFeeCollector = "fee_collector"

type zzEnv struct {
	k    Keeper
	srv  msgServer
	bank *zzverif.Bank
	ctx  sdk.Context
	h    int64
	p    types.Params
}

// zzParams draws governance parameters accepted by the module's own validators.
// zzRatioGrid: when set, the two percentage parameters are case-split over a grid instead of being
// symbolic (keeps the share arithmetic linear for the solvers; the general arithmetic is a separate kernel).
var zzRatioGrid []int64

// zzRatioFixed pins single percentage parameters (by tag) to one value.
var zzRatioFixed map[string]int64

func zzPercent(tag string) int64 {
	if v, ok := zzRatioFixed[tag]; ok {
		return v
	}
	if zzRatioGrid == nil {
		return zzverif.NondetRange(tag, 0, 100)
	}
	return zzRatioGrid[zzverif.NondetLen(tag+".grid", 0, len(zzRatioGrid)-1)]
}

func zzParams() types.Params {
	p := types.Params{
		DepositAccount:         "jkl1arsaayyj5tash86mwqudmcs2fd5jt5zgc3sexc",
		ProofWindow:            zzverif.NondetRange("param.ProofWindow", 0, 1<<40),
		ChunkSize:              zzverif.NondetRange("param.ChunkSize", 0, 1<<40),
		MissesToBurn:           zzverif.NondetRange("param.MissesToBurn", 0, 1<<20),
		PriceFeed:              "jklprice",
		MaxContractAgeInBlocks: zzverif.NondetRange("param.MaxContractAgeInBlocks", 0, 1<<40),
		PricePerTbPerMonth:     zzverif.NondetRange("param.PricePerTbPerMonth", 0, 1<<30),
		AttestFormSize:         zzverif.NondetRange("param.AttestFormSize", 0, 1<<20),
		AttestMinToPass:        zzverif.NondetRange("param.AttestMinToPass", 0, 1<<20),
		CollateralPrice:        zzverif.NondetRange("param.CollateralPrice", 0, 1<<62),
		CheckWindow:            zzverif.NondetRange("param.CheckWindow", 0, 1<<40),
		ReferralCommission:     zzPercent("param.ReferralCommission"),
		PolRatio:               zzPercent("param.PolRatio"),
	}
	zzverif.Assume(zzverif.ValidateParamSet(&p) == nil) // what Subspace.SetParamSet enforces
	return p
}

// zzSetup builds the real storage keeper (with the real rns and oracle keepers behind it) over the model
// environment, open-world stores, arbitrary validator-accepted params.
func zzSetup() *zzEnv {
	zzverif.OpenStore("storage")
	zzverif.OpenStore("rns")
	zzverif.OpenStore("oracle")
	zzStorageWF()
	return zzBuild()
}

func zzBuild() *zzEnv {
	bank := zzverif.NewBank("ujkl")
	cdc := zzverif.Codec()
	rk := rnskeeper.NewKeeper(cdc, zzverif.StoreKey("rns"), zzverif.Subspace("rns"), bank)
	ok := oraclekeeper.NewKeeper(cdc, zzverif.StoreKey("oracle"), zzverif.Subspace("oracle"), bank)
	k := NewKeeper(cdc, zzverif.StoreKey("storage"), zzverif.Subspace("storage"), bank, zzAccounts{}, ok, rk, zzFeeCollector)
	e := &zzEnv{k: *k, bank: bank}
	e.srv = msgServer{Keeper: e.k}
	e.h = zzverif.NondetRange("height", 0, 1<<40)
	e.ctx = zzverif.Ctx(e.h, zzverif.NondetTime("blocktime"), zzverif.NondetUint64("blockgas"))
	e.p = zzParams()
	e.k.SetParams(e.ctx, e.p)
	return e
}

// zzStorageWF: well-formedness of open-world storage records (DESIGN Appendix D).
func zzStorageWF() {
	zzverif.WFKey("storage", "Providers", "Providers/value/", "$Address", "/")
	zzverif.WFKey("storage", "Collateral", "Collateral/value/", "$Address", "/")
	zzverif.WF("Collateral", "nonneg:Amount")
	zzverif.WFKey("storage", "StoragePaymentInfo", "StoragePaymentInfo/value/", "$Address", "/")
	zzverif.WFKey("storage", "UnifiedFile", "FilesByMerkle/value/", "hex:$Merkle", "/", "$Owner", "/", "dec:$Start", "/")
	zzverif.WFKey("storage", "UnifiedFile", "FilesByOwner/value/", "$Owner", "/", "hex:$Merkle", "/", "dec:$Start", "/")
	// ProofInterval is a copy of the (validated > 1) ProofWindow parameter at posting time
	zzverif.WF("UnifiedFile", "pos:ProofInterval", "nonneg:Start")
	zzverif.WFKey("storage", "FileProof", "FileProof/value/", "$Prover", "/", "$Owner", "/", "hex:$Merkle", "/", "dec:$Start", "/")
	zzverif.WFKey("rns", "Names", "Names/value/", "$Name", ".", "$Tld", "/")
	zzverif.WFAddr("Names", "Value")
}
