package keeper

import (
	sdk "github.com/cosmos/cosmos-sdk/types"
	"github.com/jackalLabs/canine-chain/v4/x/storage/types"
	"github.com/jackalLabs/canine-chain/v4/zzverif"
)

// C15 as delta obligations on   escrow(ujkl) == sum of recorded collaterals:
// every step changes the collateral escrow account by exactly the change of the one record it names,
// and leaves every other record alone (Skolem address).

type zzCollat struct {
	creator, other string
	pre            types.Collateral
	found          bool
	opre           types.Collateral
	ofound         bool
	esc0, acct0    zzverif.Z
	addr           sdk.AccAddress
	prov           bool
}

func zzCollatBefore(e *zzEnv) zzCollat {
	c := zzCollat{creator: zzverif.NondetString("creator"), other: zzverif.NondetString("other.address")}
	zzverif.Assume(c.other != c.creator)
	var err error
	c.addr, err = sdk.AccAddressFromBech32(c.creator)
	zzverif.Assume(err == nil) // ValidateBasic of both messages
	zzverif.Assume(zzverif.And(!zzverif.IsModuleAddr(c.addr), !zzverif.Blocked(c.addr)))
	c.pre, c.found = e.k.GetCollateral(e.ctx, c.creator)
	c.opre, c.ofound = e.k.GetCollateral(e.ctx, c.other)
	_, c.prov = e.k.GetProviders(e.ctx, c.creator)
	// WF (established by InitProvider / ShutdownProvider, the only writers): a collateral record exists
	// only together with the provider record of the same address
	zzverif.Assume(zzverif.Implies(c.found, c.prov))
	c.esc0 = e.bank.ZModuleBal(types.CollateralCollectorName, "ujkl")
	c.acct0 = e.bank.ZBal(c.addr, "ujkl")
	return c
}

func zzAmount(c types.Collateral, found bool) zzverif.Z {
	if !found {
		return zzverif.ZOf(0)
	}
	return zzverif.ZOf(c.Amount)
}

func zzCollatAfter(e *zzEnv, c zzCollat, tag string) (types.Collateral, bool) {
	post, found := e.k.GetCollateral(e.ctx, c.creator)
	esc1 := e.bank.ZModuleBal(types.CollateralCollectorName, "ujkl")
	zzverif.Assert(esc1.Sub(c.esc0).Eq(zzAmount(post, found).Sub(zzAmount(c.pre, c.found))), "C15/"+tag+"-escrow-delta-equals-record-delta")
	opost, ofound := e.k.GetCollateral(e.ctx, c.other)
	zzverif.Assert(ofound == c.ofound && (!ofound || opost.Amount == c.opre.Amount), "C15/"+tag+"-other-records-untouched")
	return post, found
}

func VH_C15_init() {
	e := zzSetup()
	c := zzCollatBefore(e)
	msg := types.MsgInitProvider{Creator: c.creator, Ip: zzverif.NondetString("ip"), Keybase: zzverif.NondetString("keybase"), TotalSpace: zzverif.NondetInt64("totalspace")}
	err, pan := zzverif.Deliver(func() error { _, er := e.srv.InitProvider(sdk.WrapSDKContext(e.ctx), &msg); return er })
	post, found := zzCollatAfter(e, c, "init")
	if zzverif.Ok(err, pan) {
		zzverif.Cover("C15/init-succeeds")
		zzverif.Assert(!c.prov, "C15/init-only-once")
		zzverif.Assert(found && post.Amount == e.p.CollateralPrice, "C15/init-records-current-price")
		zzverif.Assert(c.acct0.Sub(e.bank.ZBal(c.addr, "ujkl")).Eq(zzverif.ZOf(e.p.CollateralPrice)), "C15/init-locks-exactly-the-price")
		_, provNow := e.k.GetProviders(e.ctx, c.creator)
		zzverif.Assert(provNow, "C15/init-registers-provider")
	}
}

func VH_C15_shutdown() {
	e := zzSetup()
	c := zzCollatBefore(e)
	msg := types.MsgShutdownProvider{Creator: c.creator}
	err, pan := zzverif.Deliver(func() error { _, er := e.srv.ShutdownProvider(sdk.WrapSDKContext(e.ctx), &msg); return er })
	_, found := zzCollatAfter(e, c, "shutdown")
	if zzverif.Ok(err, pan) {
		zzverif.Cover("C15/shutdown-succeeds")
		zzverif.Assert(c.prov, "C15/shutdown-needs-provider")
		zzverif.Assert(!found, "C15/shutdown-removes-record")
		zzverif.Assert(e.bank.ZBal(c.addr, "ujkl").Sub(c.acct0).Eq(zzAmount(c.pre, c.found)), "C15/shutdown-returns-recorded-amount")
		_, provNow := e.k.GetProviders(e.ctx, c.creator)
		zzverif.Assert(!provNow, "C15/shutdown-removes-provider")
		// a second shutdown in the resulting state fails: nothing can be claimed twice
		err2, pan2 := zzverif.Deliver(func() error { _, er := e.srv.ShutdownProvider(sdk.WrapSDKContext(e.ctx), &msg); return er })
		zzverif.Assert(!zzverif.Ok(err2, pan2), "C15/second-shutdown-fails")
	}
}
