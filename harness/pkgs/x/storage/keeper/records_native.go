package keeper

import (
	"github.com/cosmos/cosmos-sdk/codec"
	oracletypes "github.com/jackalLabs/canine-chain/v4/x/oracle/types"
	rnstypes "github.com/jackalLabs/canine-chain/v4/x/rns/types"
	"github.com/jackalLabs/canine-chain/v4/x/storage/types"
	"github.com/jackalLabs/canine-chain/v4/zzverif"
)

func init() {
	zzverif.RegisterRecord("Providers", func() codec.ProtoMarshaler { return &types.Providers{} })
	zzverif.RegisterRecord("Collateral", func() codec.ProtoMarshaler { return &types.Collateral{} })
	zzverif.RegisterRecord("StoragePaymentInfo", func() codec.ProtoMarshaler { return &types.StoragePaymentInfo{} })
	zzverif.RegisterRecord("UnifiedFile", func() codec.ProtoMarshaler { return &types.UnifiedFile{} })
	zzverif.RegisterRecord("FileProof", func() codec.ProtoMarshaler { return &types.FileProof{} })
	zzverif.RegisterRecord("PaymentGauge", func() codec.ProtoMarshaler { return &types.PaymentGauge{} })
	zzverif.RegisterRecord("AttestationForm", func() codec.ProtoMarshaler { return &types.AttestationForm{} })
	zzverif.RegisterRecord("ReportForm", func() codec.ProtoMarshaler { return &types.ReportForm{} })
	zzverif.RegisterRecord("Names", func() codec.ProtoMarshaler { return &rnstypes.Names{} })
	zzverif.RegisterRecord("Feed", func() codec.ProtoMarshaler { return &oracletypes.Feed{} })
}
