package keeper

import (
	sdk "github.com/cosmos/cosmos-sdk/types"
	"github.com/jackalLabs/canine-chain/v4/x/storage/types"
	"github.com/jackalLabs/canine-chain/v4/zzverif"
)

// VH_C01_postproof: contract of the real PostProof from an arbitrary well-formed store, for an arbitrary
// message (any creator, any file id, any chunk index, any item, any JSON proof payload).
//   - a message that is not accepted (Success == false or an error) changes nothing for that account:
//     the file's prover list, the account's proof record and its deadline stay as they were;
//   - an accepted one is for a known file, for exactly the chunk the chain challenged, and the payload
//     verified against the file's committed root (real VerifyProof / go-merkletree code).
func VH_C01_postproof() {
	e := zzSetup()
	zzverif.SetSliceBoundFor("Proofs", 2)
	// cut: whether the payload verifies against the committed root is an arbitrary boolean here (the
	// Merkle verification itself is the subject of VH_C01_verify_kernel); everything PostProof does
	// around that verdict is the real code
	valid := zzverif.NondetBool("payload.verifies")
	// ProvenThisBlock only selects a log line in PostProof: cut (its window arithmetic is C02's subject)
	zzverif.Override("(*github.com/jackalLabs/canine-chain/v4/x/storage/types.UnifiedFile).ProvenThisBlock",
		func(f *types.UnifiedFile, height int64, lastProven int64) bool { return zzverif.NondetBool("already.proven.this.window") })
	zzverif.Override("(*github.com/jackalLabs/canine-chain/v4/x/storage/types.UnifiedFile).VerifyProof",
		func(f *types.UnifiedFile, proofData []byte, chunk int64, item []byte) bool { return valid })
	msg := types.MsgPostProof{
		Creator:  zzverif.NondetAddr("creator"),
		Item:     zzverif.NondetBytes("item"),
		HashList: zzverif.NondetBytes("hashlist"),
		Merkle:   zzverif.NondetBytes("merkle"),
		Owner:    zzverif.NondetAddr("owner"),
		Start:    zzverif.NondetRange("start", 0, 1<<40),
		ToProve:  zzverif.NondetRange("toprove", 0, 1<<40),
	}
	pre, found := e.k.GetFile(e.ctx, msg.Merkle, msg.Owner, msg.Start)
	var key string
	listed := false
	var preProof types.FileProof
	hadProof := false
	if found {
		key = pre.MakeProofKey(msg.Creator)
		listed = pre.ContainsProver(msg.Creator)
		preProof, hadProof = e.k.GetProofWithBuiltKey(e.ctx, []byte(key))
		// WF (C17): a listed prover has a proof record that refers back to the file
		zzverif.Assume(listed == hadProof) // ... and a proof record exists only for a listed prover
	}
	var resp *types.MsgPostProofResponse
	err, pan := zzverif.Deliver(func() error {
		r, er := e.srv.PostProof(sdk.WrapSDKContext(e.ctx), &msg)
		resp = r
		return er
	})
	accepted := zzverif.Ok(err, pan) && resp != nil && resp.Success
	post, pfound := e.k.GetFile(e.ctx, msg.Merkle, msg.Owner, msg.Start)
	if !accepted {
		zzverif.Cover("C01/proof-rejected")
		zzverif.Assert(pfound == found, "C01/rejected-proof-keeps-file")
		if found && pfound {
			zzverif.Assert(len(post.Proofs) == len(pre.Proofs), "C01/rejected-proof-keeps-prover-list")
			zzverif.Assert(post.ContainsProver(msg.Creator) == listed, "C01/rejected-proof-does-not-register-the-prover")
			postProof, hasProof := e.k.GetProofWithBuiltKey(e.ctx, []byte(key))
			zzverif.Assert(hasProof == hadProof, "C01/rejected-proof-creates-no-proof-record")
			if hasProof && hadProof {
				zzverif.Assert(zzverif.And(postProof.LastProven == preProof.LastProven, postProof.ChunkToProve == preProof.ChunkToProve), "C01/rejected-proof-keeps-deadline-and-challenge")
			}
		}
		return
	}
	zzverif.Cover("C01/proof-accepted")
	zzverif.Assert(found, "C01/accepted-proof-is-for-a-known-file")
	if !found {
		return
	}
	// the challenge the account had to answer: its recorded one, or chunk 0 for a new prover
	challenge := int64(0)
	if hadProof {
		challenge = preProof.ChunkToProve
	}
	zzverif.Assert(msg.ToProve == challenge, "C01/accepted-proof-answers-the-challenged-chunk")
	zzverif.Assert(valid, "C01/accepted-proof-verifies-against-the-committed-root")
	zzverif.Assert(listed || int64(len(pre.Proofs)) < pre.MaxProofs, "C01/full-file-accepts-only-listed-provers")
	postProof, hasProof := e.k.GetProofWithBuiltKey(e.ctx, []byte(key))
	zzverif.Assert(hasProof && postProof.LastProven == e.h, "C01/accepted-proof-refreshes-the-deadline")
	zzverif.Assert(post.ContainsProver(msg.Creator), "C01/accepted-prover-is-listed")
}
