package keeper

import (
	sdk "github.com/cosmos/cosmos-sdk/types"
	"github.com/jackalLabs/canine-chain/v4/zzverif"
)

// VH_C05_reward_block: the storage BeginBlock path (RunRewardBlock -> ManageRewards -> real gauges) never
// panics on a state that valid transactions can create: a file whose size, replication and interval are
// whatever PostFile accepted (ValidateBasic only checks the creator), its provers, one payment gauge.
func VH_C05_reward_block() {
	maxP := 1
	if zzverif.Thorough() {
		maxP = 2
	}
	// the gauge payout is cut to an arbitrary amount here; that the real gauge code cannot panic is
	// C12/pull-never-panics (VH_C12_one_gauge)
	w := zzRewardSetupOpt(maxP, -1<<63, 1<<63-1, true)
	e := w.e
	panicked := zzverif.Try(func() { e.k.ManageRewards(w.ctx) })
	zzverif.Assert(!panicked, "C05/storage-beginblock-never-panics")
	zzverif.Cover("C05/reward-block-reached")
}

// VH_C05_reward_gate: the gate in front of ManageRewards (height modulo the governance-set CheckWindow)
// cannot panic for validator-accepted parameters; what it guards is VH_C05_reward_block.
func VH_C05_reward_gate() {
	e := zzSetupClosed()
	ran := false
	zzverif.Override("(github.com/jackalLabs/canine-chain/v4/x/storage/keeper.Keeper).ManageRewards", func(k Keeper, ctx sdk.Context) { ran = true })
	panicked := zzverif.Try(func() { e.k.RunRewardBlock(e.ctx) })
	zzverif.Assert(!panicked, "C05/storage-reward-gate-never-panics")
	if ran {
		zzverif.Cover("C05/reward-gate-reached")
	} else {
		zzverif.Cover("C05/reward-gate-reached")
	}
}
