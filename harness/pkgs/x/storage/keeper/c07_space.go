package keeper

import (
	sdk "github.com/cosmos/cosmos-sdk/types"
	"github.com/jackalLabs/canine-chain/v4/x/storage/types"
	"github.com/jackalLabs/canine-chain/v4/zzverif"
)

// C07: used(a) = sum of FileSize*MaxProofs over a's live plan-paid files, 0 <= used <= purchased.
// The sum over an unbounded file set is handled by *delta obligations*: every step that adds, replaces or
// removes a file, or writes a payment record, changes `SpaceUsed` of exactly the owner by exactly the
// footprint that entered or left the file set (observed at an arbitrary account and an arbitrary file key);
// then used = sum follows for histories of any length by induction, and the band 0 <= used <= purchased is
// carried as the inductive hypothesis on the pre-state.

// zzPlanPaid: the file was posted against the owner's plan (PostFile's own branch condition).
func zzPlanPaid(expires int64) bool { return expires <= 0 }

func zzFootprint(f types.UnifiedFile) zzverif.Z {
	return zzverif.ZOf(f.FileSize).Mul(zzverif.ZOf(f.MaxProofs))
}

type zzSpaceObs struct {
	e      *zzEnv
	acct   string
	pi     types.StoragePaymentInfo
	piOK   bool
	fm     []byte
	fo     string
	fs     int64
	file   types.UnifiedFile
	fileOK bool

	obsAcct, obsFile bool
}

// zzObserve fixes an arbitrary account and / or an arbitrary file key and reads them before the step.
func zzObserve(e *zzEnv, account, file bool) *zzSpaceObs {
	o := &zzSpaceObs{e: e, obsAcct: account, obsFile: file}
	if account {
		o.acct = zzverif.NondetString("observed.account")
		o.pi, o.piOK = e.k.GetStoragePaymentInfo(e.ctx, o.acct)
	}
	if file {
		o.fm, o.fo, o.fs = zzverif.NondetBytes("observed.merkle"), zzverif.NondetString("observed.owner"), zzverif.NondetRange("observed.start", 0, 1<<40)
		o.file, o.fileOK = e.k.GetFile(e.ctx, o.fm, o.fo, o.fs)
	}
	return o
}

// zzAcctSame / zzFileSame: the observed payment record / file is as it was before the step.
func (o *zzSpaceObs) zzAcctSame() bool {
	if !o.obsAcct {
		return true
	}
	post, ok := o.e.k.GetStoragePaymentInfo(o.e.ctx, o.acct)
	return ok == o.piOK && (!ok || zzSamePay(post, o.pi))
}

func (o *zzSpaceObs) zzFileSame() bool {
	if !o.obsFile {
		return true
	}
	post, ok := o.e.k.GetFile(o.e.ctx, o.fm, o.fo, o.fs)
	return ok == o.fileOK && (!ok || zzSameFootprintFields(post, o.file))
}

func zzSamePay(a, b types.StoragePaymentInfo) bool {
	return zzverif.And(zzverif.And(a.SpaceUsed == b.SpaceUsed, a.SpaceAvailable == b.SpaceAvailable),
		zzverif.And(a.Start.Equal(b.Start), zzverif.And(a.End.Equal(b.End), zzverif.And(a.Coins.IsEqual(b.Coins), a.Address == b.Address))))
}

func zzSameFootprintFields(a, b types.UnifiedFile) bool {
	return zzverif.And(zzverif.And(a.FileSize == b.FileSize, a.MaxProofs == b.MaxProofs), zzverif.And(a.Expires == b.Expires, a.Owner == b.Owner))
}

// zzBand: the inductive hypothesis on a payment record.
func zzBand(pi types.StoragePaymentInfo) bool {
	return zzverif.And(pi.SpaceUsed >= 0, pi.SpaceUsed <= pi.SpaceAvailable)
}

func zzIsKey(o *zzSpaceObs, merkle []byte, owner string, start int64) bool {
	return string(types.FilesPrimaryKey(o.fm, o.fo, o.fs)) == string(types.FilesPrimaryKey(merkle, owner, start))
}

// VH_C07_post: the real PostFile for an arbitrary message from an arbitrary well-formed state.
func VH_C07_post_plan_account()    { zzPost(true, true) }
func VH_C07_post_plan_file()       { zzPost(true, false) }
func VH_C07_post_payonce_account() { zzPost(false, true) }
func VH_C07_post_payonce_file()    { zzPost(false, false) }

// zzSizes: FileSize x MaxProofs with one factor from a grid and the other arbitrary (the product of two
// symbolic 64-bit factors is beyond both solvers; see DESIGN). The grids hold ordinary replication counts
// and sizes and the values around which the 64-bit product wraps.
func zzSizes() (int64, int64) {
	repl := []int64{1, 3, 1 << 62}
	size := []int64{1, 1 << 40, 1<<62 + 1}
	if zzverif.Thorough() {
		repl = []int64{1, 2, 3, 5, 1 << 31, 1 << 62, 1<<63 - 1}
		size = []int64{1, 1000, 1 << 40, 1 << 62, 1<<62 + 1, 1<<63 - 1}
	}
	if zzverif.Thorough() && zzverif.NondetBool("grid.on.size") {
		return size[zzverif.NondetLen("size.grid", 0, len(size)-1)], zzverif.NondetInt64("maxproofs")
	}
	return zzverif.NondetInt64("filesize"), repl[zzverif.NondetLen("repl.grid", 0, len(repl)-1)]
}

// zzPost: plan selects the payment branch, account selects what is observed (an arbitrary account's
// payment record, or an arbitrary file key).
func zzPost(plan bool, account bool) {
	zzRatioGrid = []int64{25} // the payment split of a pay-once post is C04's subject: one ordinary setting here
	e := zzSetup()
	zzverif.SetSliceBoundFor("Proofs", 0) // prover lists play no part in posting
	// no gauge yet with the id the post derives (merging into an existing gauge is C12's subject)
	zzverif.AssumeNoKeysWithPrefix("storage", types.PaymentGaugeKeyPrefix)
	zzverif.Override("(github.com/jackalLabs/canine-chain/v4/x/storage/keeper.Keeper).GetStorageCostKbs",
		func(k Keeper, ctx sdk.Context, kbs int64, hours int64) sdk.Int {
			return sdk.NewInt(zzverif.NondetRange("storage.cost", 0, 1<<60))
		})
	msg := types.MsgPostFile{
		Creator:   zzverif.NondetAddr("creator"),
		Merkle:    zzverif.NondetBytes("merkle"),
		ProofType: zzverif.NondetInt64("prooftype"),
		Expires:   zzverif.NondetInt64("expires"),
		Note:      zzverif.NondetString("note"),
	}
	msg.FileSize, msg.MaxProofs = zzSizes()
	zzverif.Assume(zzPlanPaid(msg.Expires) == plan)
	payer, perr := sdk.AccAddressFromBech32(msg.Creator)
	zzverif.Assume(perr == nil) // ValidateBasic
	zzverif.Assume(zzverif.And(!zzverif.IsModuleAddr(payer), !zzverif.Blocked(payer)))
	o := zzObserve(e, account, !account)
	if o.piOK {
		zzverif.Assume(zzBand(o.pi))
	}
	prePay, hadPay := e.k.GetStoragePaymentInfo(e.ctx, msg.Creator)
	if hadPay {
		zzverif.Assume(zzBand(prePay))
	}
	_, existed := e.k.GetFile(e.ctx, msg.Merkle, msg.Creator, e.h)
	err, pan := zzverif.Deliver(func() error { _, er := e.srv.PostFile(sdk.WrapSDKContext(e.ctx), &msg); return er })
	if !zzverif.Ok(err, pan) {
		zzverif.Cover("C07/post-fails")
		zzverif.Assert(o.zzAcctSame(), "C07/failed-post-leaves-usage-unchanged")
		zzverif.Assert(o.zzFileSame(), "C07/failed-post-leaves-files-unchanged")
		return
	}
	zzverif.Cover("C07/post-succeeds")
	zzverif.Assert(!existed, "C07/post-never-replaces-a-live-file")
	zzverif.Assert(zzverif.And(msg.FileSize > 0, msg.MaxProofs > 0), "C07/posted-footprint-is-positive")
	foot := zzverif.ZOf(msg.FileSize).Mul(zzverif.ZOf(msg.MaxProofs))
	if !account {
		// the file set changes only at the posted key, and the posted file carries the message's footprint
		if zzIsKey(o, msg.Merkle, msg.Creator, e.h) {
			postFile, postFileOK := e.k.GetFile(e.ctx, o.fm, o.fo, o.fs)
			zzverif.Assert(postFileOK, "C07/posted-file-is-live")
			if postFileOK {
				zzverif.Assert(zzverif.And(zzverif.And(postFile.FileSize == msg.FileSize, postFile.MaxProofs == msg.MaxProofs), zzverif.And(postFile.Expires == msg.Expires, postFile.Owner == msg.Creator)), "C07/posted-file-carries-the-message-footprint")
			}
		} else {
			zzverif.Assert(o.zzFileSame(), "C07/post-touches-no-other-file")
		}
		return
	}
	if o.acct != msg.Creator {
		zzverif.Assert(o.zzAcctSame(), "C07/post-touches-no-other-account")
		return
	}
	if !plan {
		zzverif.Cover("C07/pay-once-post-succeeds")
		zzverif.Assert(o.zzAcctSame(), "C07/pay-once-post-uses-no-plan-space")
		return
	}
	zzverif.Cover("C07/plan-post-succeeds")
	postObs, postObsOK := e.k.GetStoragePaymentInfo(e.ctx, o.acct)
	zzverif.Assert(hadPay && !prePay.End.Before(e.ctx.BlockTime()), "C07/plan-post-needs-a-live-plan")
	if !hadPay || !postObsOK {
		zzverif.Assert(false, "C07/plan-post-keeps-the-plan")
		return
	}
	zzverif.Assert(zzverif.ZOf(postObs.SpaceUsed).Eq(zzverif.ZOf(prePay.SpaceUsed).Add(foot)), "C07/plan-post-charges-exactly-the-footprint")
	zzverif.Assert(postObs.SpaceAvailable == prePay.SpaceAvailable, "C07/plan-post-keeps-purchased-space")
	zzverif.Assert(zzBand(postObs), "C07/plan-post-keeps-usage-within-purchase")
}

// zzRemoval: shared by DeleteFile and the reward block's drop of a file without provers.
func zzRemoval(kind string) {
	e := zzSetup()
	zzverif.SetSliceBoundFor("Proofs", 1)
	merkle, owner, start := zzverif.NondetBytes("merkle"), zzverif.NondetAddr("owner"), zzverif.NondetRange("start", 0, 1<<40)
	o := zzObserve(e, true, true)
	pre, found := e.k.GetFile(e.ctx, merkle, owner, start)
	prePay, hadPay := e.k.GetStoragePaymentInfo(e.ctx, owner)
	if found {
		// FileSize x MaxProofs: one factor from a grid (see zzSizes)
		grid := []int64{1, 3, 1 << 62}
		if zzverif.Thorough() {
			grid = []int64{1, 2, 3, 5, 1 << 31, 1 << 62, 1<<63 - 1}
		}
		zzverif.Assume(pre.MaxProofs == grid[zzverif.NondetLen("stored.repl.grid", 0, len(grid)-1)])
	}
	if found && hadPay && zzPlanPaid(pre.Expires) {
		// inductive hypothesis: the plan's usage includes this live plan-paid file
		zzverif.Assume(zzBand(prePay))
		zzverif.Assume(zzverif.And(pre.FileSize > 0, pre.MaxProofs > 0))
		zzverif.Assume(zzFootprint(pre).Le(zzverif.ZOf(prePay.SpaceUsed)))
	}
	var err error
	var pan bool
	switch kind {
	case "delete":
		msg := types.MsgDeleteFile{Creator: owner, Merkle: merkle, Start: start}
		err, pan = zzverif.Deliver(func() error { _, er := e.srv.DeleteFile(sdk.WrapSDKContext(e.ctx), &msg); return er })
	case "drop":
		zzverif.Assume(found)
		f := pre
		f.Merkle, f.Owner, f.Start = merkle, owner, start // the key fields, spelled as they were looked up (equal by A-WF)
		pan = zzverif.Try(func() { e.k.removeFileIfDeserved(e.ctx, &f) })
	}
	zzverif.Assert(zzverif.Ok(err, pan), "C07/"+kind+"-never-fails")
	_, still := e.k.GetFile(e.ctx, merkle, owner, start)
	postPay, hasPay := e.k.GetStoragePaymentInfo(e.ctx, owner)
	if !zzIsKey(o, merkle, owner, start) {
		zzverif.Assert(o.zzFileSame(), "C07/"+kind+"-touches-no-other-file")
	}
	if o.acct != owner {
		zzverif.Assert(o.zzAcctSame(), "C07/"+kind+"-touches-no-other-account")
	}
	zzverif.Assert(hasPay == hadPay, "C07/"+kind+"-keeps-the-plan-record")
	if !hadPay || !hasPay {
		return
	}
	removed := found && !still
	if removed {
		zzverif.Cover("C07/" + kind + "-removes-a-file")
	}
	if removed && zzPlanPaid(pre.Expires) {
		zzverif.Cover("C07/" + kind + "-removes-a-plan-paid-file")
		zzverif.Assert(zzverif.ZOf(postPay.SpaceUsed).Eq(zzverif.ZOf(prePay.SpaceUsed).Sub(zzFootprint(pre))), "C07/"+kind+"-returns-the-footprint")
		zzverif.Assert(postPay.SpaceAvailable == prePay.SpaceAvailable, "C07/"+kind+"-keeps-purchased-space")
	} else {
		zzverif.Assert(zzSamePay(postPay, prePay), "C07/"+kind+"-without-plan-file-leaves-usage-unchanged")
	}
}

func VH_C07_delete() { zzRemoval("delete") }
func VH_C07_drop()   { zzRemoval("drop") }

// VH_C07_buy: buying or upgrading a plan (for oneself, no referral, price cut to an arbitrary amount)
// carries the space already used over to the new plan record and never sells less than that.
func VH_C07_buy() {
	zzRatioGrid = []int64{25}
	e := zzSetup()
	zzverif.AssumeNoKeysWithPrefix("rns", "Names/value/")
	zzverif.AssumeNoKeysWithPrefix("storage", types.PaymentGaugeKeyPrefix)
	zzverif.Assume(e.p.PricePerTbPerMonth == 8)
	zzverif.Override(zzCostFn, func(k Keeper, ctx sdk.Context, gbs int64, hours int64) sdk.Int {
		return sdk.NewInt(zzverif.NondetRange("storage.cost", 0, 1<<60))
	})
	creator := zzverif.NondetAddr("creator")
	msg := types.MsgBuyStorage{Creator: creator, ForAddress: creator, DurationDays: zzverif.NondetRange("days", 0, 100000),
		Bytes: zzverif.NondetInt64("bytes"), PaymentDenom: "ujkl", Referral: ""}
	payer, _ := sdk.AccAddressFromBech32(creator)
	zzverif.Assume(zzverif.And(!zzverif.IsModuleAddr(payer), !zzverif.Blocked(payer)))
	pre, had := e.k.GetStoragePaymentInfo(e.ctx, creator)
	if had {
		zzverif.Assume(zzBand(pre))
	}
	// the payer can afford any price, so that a natively replayed purchase (priced by the real price
	// function instead of the cut) goes through as well
	zzverif.Assume(e.bank.ZBal(payer, "ujkl").Ge(zzverif.ZOf(1 << 62).Mul(zzverif.ZOf(1 << 40))))
	err, pan := zzverif.Deliver(func() error { _, er := e.srv.BuyStorage(sdk.WrapSDKContext(e.ctx), &msg); return er })
	post, has := e.k.GetStoragePaymentInfo(e.ctx, creator)
	if !zzverif.Ok(err, pan) {
		zzverif.Assert(has == had && (!has || zzSamePay(post, pre)), "C07/failed-purchase-leaves-the-plan-unchanged")
		return
	}
	zzverif.Cover("C07/buy-succeeds")
	zzverif.Assert(has, "C07/purchase-leaves-a-plan")
	if !has {
		return
	}
	used := int64(0)
	if had {
		zzverif.Cover("C07/buy-over-an-existing-plan")
		used = pre.SpaceUsed
	}
	zzverif.Assert(post.SpaceUsed == used, "C07/purchase-carries-the-space-used")
	zzverif.Assert(zzverif.And(post.SpaceAvailable == msg.Bytes, zzBand(post)), "C07/purchase-never-sells-less-than-the-space-used")
}
