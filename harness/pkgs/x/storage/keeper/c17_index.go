package keeper

import (
	"fmt"
	"github.com/cosmos/cosmos-sdk/store/prefix"
	sdk "github.com/cosmos/cosmos-sdk/types"
	"github.com/jackalLabs/canine-chain/v4/x/storage/types"
	"github.com/jackalLabs/canine-chain/v4/zzverif"
)

// C17: inductive invariant, observed at an arbitrary file key (m, o, s):
//   I1  the by-content entry is present iff the by-owner entry is, and both hold the same file;
//   I2  the prover list has no duplicates, is no longer than MaxProofs, and every listed key holds a proof
//       record that rebuilds that key from its own fields and names this file.
// One step of every writer (SetFile / RemoveFile / SetProof / RemoveProof callers, enumerated from the
// code) from an arbitrary state satisfying the invariant at the keys it reads re-establishes it, for the
// file the step addresses ("target") and for any other file ("other").

func zzSecondary(e *zzEnv, m []byte, o string, s int64) (types.UnifiedFile, bool) {
	store := prefix.NewStore(e.ctx.KVStore(e.k.storeKey), types.KeyPrefix(types.FileSecondaryKeyPrefix))
	b := store.Get(types.FilesSecondaryKey(m, o, s))
	var val types.UnifiedFile
	if b == nil {
		return val, false
	}
	e.k.cdc.MustUnmarshal(b, &val)
	return val, true
}

func zzFileEq(a, b types.UnifiedFile) bool {
	if len(a.Proofs) != len(b.Proofs) {
		return false
	}
	ok := zzverif.And(string(a.Merkle) == string(b.Merkle), zzverif.And(a.Owner == b.Owner, a.Start == b.Start))
	ok = zzverif.And(ok, zzverif.And(a.Expires == b.Expires, zzverif.And(a.FileSize == b.FileSize, a.ProofInterval == b.ProofInterval)))
	ok = zzverif.And(ok, zzverif.And(a.ProofType == b.ProofType, zzverif.And(a.MaxProofs == b.MaxProofs, a.Note == b.Note)))
	for i := range a.Proofs {
		ok = zzverif.And(ok, a.Proofs[i] == b.Proofs[i])
	}
	return ok
}

// zzListOK: I2 for a present file, stated constructively: every listed key is the proof key of some
// account q for this file, and a proof record sits at that key (its fields then rebuild the key and name the
// file by A-WF). Equivalent to "the record at the listed key rebuilds it", with q = that record's Prover.
func zzListOK(e *zzEnv, f types.UnifiedFile, tag string) bool {
	ok := int64(len(f.Proofs)) <= f.MaxProofs
	for i := range f.Proofs {
		for j := i + 1; j < len(f.Proofs); j++ {
			ok = zzverif.And(ok, f.Proofs[i] != f.Proofs[j])
		}
	}
	for i, pk := range f.Proofs {
		q := zzverif.NondetAddr(fmt.Sprintf("%s.prover%d", tag, i))
		key := f.MakeProofKey(q)
		ok = zzverif.And(ok, pk == key)
		p, found := e.k.GetProofWithBuiltKey(e.ctx, []byte(key))
		if !found {
			return false
		}
		ok = zzverif.And(ok, zzverif.And(p.Prover == q, zzverif.And(string(p.Merkle) == string(f.Merkle), zzverif.And(p.Owner == f.Owner, p.Start == f.Start))))
	}
	return ok
}

// zzInv: I1 and I2 at the key.
func zzInv(e *zzEnv, m []byte, o string, s int64, tag string) bool {
	p, pf := e.k.GetFile(e.ctx, m, o, s)
	q, qf := zzSecondary(e, m, o, s)
	if pf != qf {
		return false
	}
	if !pf {
		return true
	}
	if !zzFileEq(p, q) {
		return false
	}
	return zzListOK(e, p, tag)
}

func zzAssertInv(e *zzEnv, m []byte, o string, s int64, tag string) {
	p, pf := e.k.GetFile(e.ctx, m, o, s)
	q, qf := zzSecondary(e, m, o, s)
	zzverif.Assert(pf == qf, "C17/"+tag+"-both-indexes-hold-the-same-files")
	if !pf || !qf {
		return
	}
	zzverif.Assert(zzFileEq(p, q), "C17/"+tag+"-both-indexes-hold-identical-contents")
	zzverif.Assert(int64(len(p.Proofs)) <= p.MaxProofs, "C17/"+tag+"-prover-list-within-replication-limit")
	dup := false
	for i := range p.Proofs {
		for j := i + 1; j < len(p.Proofs); j++ {
			dup = zzverif.Or(dup, p.Proofs[i] == p.Proofs[j])
		}
	}
	zzverif.Assert(!dup, "C17/"+tag+"-prover-list-has-no-duplicates")
	for _, pk := range p.Proofs {
		pr, found := e.k.GetProofWithBuiltKey(e.ctx, []byte(pk))
		zzverif.Assert(found, "C17/"+tag+"-listed-prover-has-a-proof-record")
		if found {
			zzverif.Assert(zzverif.And(pk == p.MakeProofKey(pr.Prover), zzverif.And(string(pr.Merkle) == string(p.Merkle), zzverif.And(pr.Owner == p.Owner, pr.Start == p.Start))), "C17/"+tag+"-proof-record-refers-back-to-the-file")
		}
	}
}

func zzIndexSetup() (*zzEnv, []byte, string, int64) {
	e := zzSetup()
	zzFormWF()
	zzverif.SetSliceBoundFor("Proofs", 2)
	zzverif.SetSliceBoundFor("Attestations", 2)
	zzverif.Override("(*github.com/jackalLabs/canine-chain/v4/x/storage/types.UnifiedFile).ProvenThisBlock",
		func(f *types.UnifiedFile, height int64, lastProven int64) bool {
			return zzverif.NondetBool("already.proven.this.window")
		})
	zzverif.Override("(*github.com/jackalLabs/canine-chain/v4/x/storage/types.UnifiedFile).VerifyProof",
		func(f *types.UnifiedFile, proofData []byte, chunk int64, item []byte) bool {
			return zzverif.NondetBool("payload.verifies")
		})
	return e, zzverif.NondetBytes("merkle"), zzverif.NondetAddr("owner"), zzverif.NondetRange("start", 0, 1<<40)
}

// zzIndexStep runs one writer addressed at file (m, o, s).
func zzIndexStep(e *zzEnv, step string, m []byte, o string, s int64) {
	wctx := sdk.WrapSDKContext(e.ctx)
	switch step {
	case "post":
		zzverif.Assume(s == e.h) // a post creates the file at the current height
		msg := types.MsgPostFile{Creator: o, Merkle: m, FileSize: zzverif.NondetRange("filesize", 1, 1<<40), ProofType: zzverif.NondetInt64("prooftype"),
			MaxProofs: 3, Expires: 0, Note: zzverif.NondetString("note")}
		zzverif.Deliver(func() error { _, er := e.srv.PostFile(wctx, &msg); return er })
	case "proof":
		msg := types.MsgPostProof{Creator: zzverif.NondetAddr("prover"), Item: zzverif.NondetBytes("item"), HashList: zzverif.NondetBytes("hashlist"),
			Merkle: m, Owner: o, Start: s, ToProve: zzverif.NondetRange("toprove", 0, 1<<40)}
		zzverif.Deliver(func() error { _, er := e.srv.PostProof(wctx, &msg); return er })
	case "delete":
		msg := types.MsgDeleteFile{Creator: o, Merkle: m, Start: s}
		zzverif.Deliver(func() error { _, er := e.srv.DeleteFile(wctx, &msg); return er })
	case "attest":
		msg := types.MsgAttest{Creator: zzverif.NondetAddr("signer"), Prover: zzverif.NondetAddr("prover"), Merkle: m, Owner: o, Start: s}
		zzverif.Deliver(func() error { _, er := e.srv.Attest(wctx, &msg); return er })
	case "report":
		msg := types.MsgReport{Creator: zzverif.NondetAddr("signer"), Prover: zzverif.NondetAddr("prover"), Merkle: m, Owner: o, Start: s}
		zzverif.Deliver(func() error { _, er := e.srv.Report(wctx, &msg); return er })
	}
}

func zzIndexTarget(step string) {
	e, m, o, s := zzIndexSetup()
	zzverif.Assume(zzInv(e, m, o, s, "target"))
	zzIndexStep(e, step, m, o, s)
	zzverif.Cover("C17/" + step + "-target-done")
	zzAssertInv(e, m, o, s, step)
}

func zzIndexOther(step string) {
	e, m, o, s := zzIndexSetup()
	m2, o2, s2 := zzverif.NondetBytes("other.merkle"), zzverif.NondetAddr("other.owner"), zzverif.NondetRange("other.start", 0, 1<<40)
	zzverif.Assume(string(types.FilesPrimaryKey(m, o, s)) != string(types.FilesPrimaryKey(m2, o2, s2)))
	zzverif.Assume(zzInv(e, m2, o2, s2, "other"))
	zzverif.Assume(zzInv(e, m, o, s, "target"))
	zzIndexStep(e, step, m, o, s)
	zzverif.Cover("C17/" + step + "-other-done")
	zzAssertInv(e, m2, o2, s2, step+"-other-file")
}

func VH_C17_post()   { zzIndexTarget("post") }
func VH_C17_proof()  { zzIndexTarget("proof") }
func VH_C17_delete() { zzIndexTarget("delete") }
func VH_C17_attest() { zzIndexTarget("attest") }
func VH_C17_report() { zzIndexTarget("report") }

// VH_C17_reward: a whole reward block (the real ManageRewards: drop of files without provers, judgement of
// every listed prover, payouts) over a closed store holding one file with up to two provers built so that
// the invariant holds; the invariant holds again afterwards. (The gauge payout is cut as in C03.)
func VH_C17_reward() {
	w := zzRewardSetup(2, 1, 1<<40)
	e := w.e
	panicked := zzverif.Try(func() { e.k.ManageRewards(w.ctx) })
	zzverif.Assert(!panicked, "C17/reward-block-does-not-panic")
	zzverif.Cover("C17/reward-target-done")
	zzAssertInv(e, w.file.Merkle, w.file.Owner, w.file.Start, "reward")
}

// (the "other file" variants of post and proof are not registered: their key-disjointness queries are left
// undecided by both solvers within the time limit -- see DESIGN)
func VH_C17_other_delete() { zzIndexOther("delete") }
func VH_C17_other_report() { zzIndexOther("report") }
