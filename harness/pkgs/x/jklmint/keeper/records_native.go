package keeper

import (
	"github.com/cosmos/cosmos-sdk/codec"
	"github.com/jackalLabs/canine-chain/v4/x/jklmint/types"
	"github.com/jackalLabs/canine-chain/v4/zzverif"
)

func init() {
	zzverif.RegisterRecord("MintedBlock", func() codec.ProtoMarshaler { return &types.MintedBlock{} })
}
