package keeper

import (
	"github.com/jackalLabs/canine-chain/v4/x/jklmint/types"
	"github.com/jackalLabs/canine-chain/v4/zzverif"
)

// VH_C06_blockmint: the jklmint begin-block step executed twice from the same state (see the storage
// harness of the same property for the method).
func VH_C06_blockmint() {
	zzverif.OpenStore("jklmint")
	zzverif.WFKey("jklmint", "MintedBlock", "last_block_minted", "minted_at_", "dec:$Height")
	bank := zzverif.NewBank("ujkl")
	ps := zzverif.Subspace("jklmint")
	if !ps.HasKeyTable() {
		ps = ps.WithKeyTable(types.ParamKeyTable())
	}
	k := Keeper{cdc: zzverif.Codec(), storeKey: zzverif.StoreKey("jklmint"), paramSpace: ps,
		bankKeeper: bank, feeCollectorName: zzFeeCollector, miningName: "mining"}
	h := zzverif.NondetRange("height", 1, 1<<40)
	ctx := zzverif.Ctx(h, zzverif.NondetTime("blocktime"), 0)
	p := types.Params{MintDenom: "ujkl", DevGrantsRatio: 8, StakerRatio: 80, StorageProviderRatio: 12,
		TokensPerBlock: zzverif.NondetRange("param.TokensPerBlock", 0, 1<<40), MintDecrease: zzverif.NondetRange("param.MintDecrease", 0, 1<<40),
		StorageStipendAddress: zzverif.NondetAddr("stipend")}
	zzverif.Assume(zzverif.ValidateParamSet(&p) == nil)
	k.SetParams(ctx, p)
	s0 := zzverif.Snapshot()
	pan1 := zzverif.Try(func() { k.BlockMint(ctx) })
	e1 := zzverif.EffectsSince(s0)
	zzverif.Restore(s0)
	pan2 := zzverif.Try(func() { k.BlockMint(ctx) })
	e2 := zzverif.EffectsSince(s0)
	zzverif.Cover("C06/blockmint-ran-twice")
	zzverif.Assert(pan1 == pan2, "C06/blockmint-same-outcome")
	zzverif.Assert(zzverif.SameEffects(e1, e2), "C06/blockmint-same-ordered-effects")
}
