package keeper

import (
	sdk "github.com/cosmos/cosmos-sdk/types"
	"github.com/jackalLabs/canine-chain/v4/x/jklmint/types"
	"github.com/jackalLabs/canine-chain/v4/zzverif"
)

const zzFeeCollector = "fee_collector"

func zzFloorPct(e int64, ratio int64) zzverif.Z {
	return zzverif.ZOf(e).Mul(zzverif.ZOf(ratio)).Div(zzverif.ZOf(100))
}

// VH_C13_blockmint: contract of the real BlockMint (real sdk.Dec arithmetic) for an arbitrary previous
// emission record and every validator-accepted parameter set whose ratios sum to at most 100.
func VH_C13_blockmint() {
	zzverif.OpenStore("jklmint")
	zzverif.WFKey("jklmint", "MintedBlock", "last_block_minted", "minted_at_", "dec:$Height")
	bank := zzverif.NewBank("ujkl")
	ps := zzverif.Subspace("jklmint")
	if !ps.HasKeyTable() {
		ps = ps.WithKeyTable(types.ParamKeyTable())
	}
	k := Keeper{cdc: zzverif.Codec(), storeKey: zzverif.StoreKey("jklmint"), paramSpace: ps,
		bankKeeper: bank, feeCollectorName: zzFeeCollector, miningName: "mining"}
	h := zzverif.NondetRange("height", 1, 1<<40)
	ctx := zzverif.Ctx(h, zzverif.NondetTime("blocktime"), 0)
	stipend := zzverif.NondetAddr("stipend")
	p := types.Params{
		MintDenom:             "ujkl",
		DevGrantsRatio:        zzverif.NondetRange("param.DevGrantsRatio", -5, 105),
		StakerRatio:           zzverif.NondetRange("param.StakerRatio", -5, 105),
		StorageProviderRatio:  zzverif.NondetRange("param.StorageProviderRatio", -5, 105),
		TokensPerBlock:        zzverif.NondetInt64("param.TokensPerBlock"),
		MintDecrease:          zzverif.NondetInt64("param.MintDecrease"),
		StorageStipendAddress: stipend,
	}
	zzverif.Assume(zzverif.ValidateParamSet(&p) == nil)
	zzverif.Assume(p.DevGrantsRatio+p.StakerRatio+p.StorageProviderRatio <= 100)
	k.SetParams(ctx, p)

	prevRec, found := k.GetMintedBlock(ctx, h-1)
	// inductive hypothesis: what the previous block recorded was a valid emission
	zzverif.Assume(!found || prevRec.Minted >= 0)
	prev := p.TokensPerBlock
	if found {
		prev = prevRec.Minted
	}
	stipendAddr, _ := sdk.AccAddressFromBech32(stipend)
	dev, _ := GetDevGrantsAccount()
	// A-RECIP: the three recipients are ordinary, distinct, non-blocked accounts
	zzverif.Assume(zzverif.And(!zzverif.Blocked(stipendAddr), !zzverif.Blocked(dev)))
	zzverif.Assume(zzverif.And(!zzverif.IsModuleAddr(stipendAddr), !zzverif.IsModuleAddr(dev)))
	other := sdk.AccAddress(zzverif.NondetBytes("other.account")) // Skolem account
	zzverif.Assume(len(other) > 0 && len(other) < 256)
	zzverif.Assume(string(other) != string(stipendAddr) && string(other) != string(dev))
	zzverif.Assume(string(other) != string(zzverif.ModuleAddr(types.ModuleName)) && string(other) != string(zzverif.ModuleAddr(zzFeeCollector)))

	sup0 := bank.ZSupply("ujkl")
	fee0, dev0, stp0 := bank.ZModuleBal(zzFeeCollector, "ujkl"), bank.ZBal(dev, "ujkl"), bank.ZBal(stipendAddr, "ujkl")
	mod0, oth0 := bank.ZModuleBal(types.ModuleName, "ujkl"), bank.ZBal(other, "ujkl")

	panicked := zzverif.Try(func() { k.BlockMint(ctx) })
	zzverif.Assert(!panicked, "C13/blockmint-never-panics")
	if panicked {
		return
	}
	rec, ok := k.GetMintedBlock(ctx, h)
	zzverif.Assert(ok, "C13/emission-recorded")
	if !ok {
		return
	}
	E := rec.Minted
	zzverif.Assert(E >= 0, "C13/emission-non-negative")
	zzverif.Assert(E <= prev, "C13/emission-non-increasing")
	zE := zzverif.ZOf(E)
	zzverif.Assert(bank.ZSupply("ujkl").Sub(sup0).Eq(zE), "C13/supply-grows-by-emission")
	fee, devv, stp := zzFloorPct(E, p.StakerRatio), zzFloorPct(E, p.DevGrantsRatio), zzFloorPct(E, p.StorageProviderRatio)
	if string(dev) != string(stipendAddr) {
		zzverif.Assert(bank.ZBal(dev, "ujkl").Sub(dev0).Eq(devv), "C13/dev-grants-share")
		zzverif.Assert(bank.ZBal(stipendAddr, "ujkl").Sub(stp0).Eq(stp), "C13/storage-stipend-share")
	}
	zzverif.Assert(bank.ZModuleBal(zzFeeCollector, "ujkl").Sub(fee0).Eq(fee), "C13/stakers-share")
	rem := bank.ZModuleBal(types.ModuleName, "ujkl").Sub(mod0)
	zzverif.Assert(rem.Eq(zE.Sub(fee).Sub(devv).Sub(stp)), "C13/mint-module-keeps-the-remainder")
	if p.DevGrantsRatio+p.StakerRatio+p.StorageProviderRatio == 100 {
		zzverif.Assert(rem.Ge(zzverif.ZOf(0)) && rem.Lt(zzverif.ZOf(3)), "C13/remainder-below-three-units")
	}
	zzverif.Assert(bank.ZBal(other, "ujkl").Eq(oth0), "C13/nobody-else-credited")
	zzverif.Cover("C13/blockmint-done")
}
