package keeper

import (
	"github.com/jackalLabs/canine-chain/v4/x/jklmint/types"
	"github.com/jackalLabs/canine-chain/v4/zzverif"
)

// VH_C05_jklmint_beginblock: the mint module's BeginBlock (BlockMint) never panics - for every previous
// emission record and every parameter set the validators accept (no assumption on ratios or recipients:
// an unparsable or blocked stipend address makes BlockMint return early, it must not panic).
func VH_C05_jklmint_beginblock() {
	zzverif.OpenStore("jklmint")
	zzverif.WFKey("jklmint", "MintedBlock", "last_block_minted", "minted_at_", "dec:$Height")
	bank := zzverif.NewBank("ujkl")
	ps := zzverif.Subspace("jklmint")
	if !ps.HasKeyTable() {
		ps = ps.WithKeyTable(types.ParamKeyTable())
	}
	k := Keeper{cdc: zzverif.Codec(), storeKey: zzverif.StoreKey("jklmint"), paramSpace: ps,
		bankKeeper: bank, feeCollectorName: zzFeeCollector, miningName: "mining"}
	h := zzverif.NondetRange("height", 1, 1<<40)
	ctx := zzverif.Ctx(h, zzverif.NondetTime("blocktime"), 0)
	p := types.Params{
		MintDenom:             "ujkl",
		DevGrantsRatio:        zzverif.NondetInt64("param.DevGrantsRatio"),
		StakerRatio:           zzverif.NondetInt64("param.StakerRatio"),
		StorageProviderRatio:  zzverif.NondetInt64("param.StorageProviderRatio"),
		TokensPerBlock:        zzverif.NondetInt64("param.TokensPerBlock"),
		MintDecrease:          zzverif.NondetInt64("param.MintDecrease"),
		StorageStipendAddress: zzverif.NondetString("param.StorageStipendAddress"),
	}
	zzverif.Assume(zzverif.ValidateParamSet(&p) == nil)
	k.SetParams(ctx, p)
	prevRec, found := k.GetMintedBlock(ctx, h-1)
	zzverif.Assume(!found || prevRec.Minted >= 0) // what BlockMint itself records (C13)
	panicked := zzverif.Try(func() { k.BlockMint(ctx) })
	zzverif.Assert(!panicked, "C05/jklmint-beginblock-never-panics")
	zzverif.Cover("C05/jklmint-beginblock-reached")
}
