package utils

import "github.com/jackalLabs/canine-chain/v4/zzverif"

const zzBlocksPerYear int64 = (365 * 24 * 60 * 60) / 6

// VH_C13_emission_kernel: the per-block emission computed by the real GetMintForBlock (real sdk.Dec
// code) is never negative and never larger than the previous block's, for every previous emission and
// every validator-accepted MintDecrease.
func VH_C13_emission_kernel() {
	prev := zzverif.NondetRange("prev", 0, 1<<62)
	dec := zzverif.NondetRange("mintDecrease", 0, 1<<62)
	e := GetMintForBlock(prev, zzBlocksPerYear, dec)
	zzverif.Assert(e <= prev, "C13/non-increasing")
	zzverif.Assert(e >= 0, "C13/non-negative")
	zzverif.Cover("C13/kernel-reached")
}

// VH_C13_owed_kernel: GetTokensOwed(total, ratio) = floor(total*ratio/100) for 0<=ratio<=100.
func VH_C13_owed_kernel() {
	total := zzverif.NondetRange("total", 0, 1<<62)
	ratio := zzverif.NondetRange("ratio", 0, 100)
	o := GetTokensOwed(total, ratio)
	want := zzverif.ZOf(total).Mul(zzverif.ZOf(ratio)).Div(zzverif.ZOf(100))
	zzverif.Assert(zzverif.ZOf(o).Eq(want), "C13/owed-is-floor")
	zzverif.Cover("C13/owed-reached")
}
