package jklmint

import (
	sdk "github.com/cosmos/cosmos-sdk/types"
	authtypes "github.com/cosmos/cosmos-sdk/x/auth/types"
	"github.com/jackalLabs/canine-chain/v4/x/jklmint/keeper"
	"github.com/jackalLabs/canine-chain/v4/x/jklmint/types"
	"github.com/jackalLabs/canine-chain/v4/zzverif"
)

type zzStaking struct{}
type zzAccounts struct{}

func (zzAccounts) GetAccount(ctx sdk.Context, addr sdk.AccAddress) authtypes.AccountI { return nil }
func (zzAccounts) GetModuleAddress(moduleName string) sdk.AccAddress              { return zzverif.ModuleAddr(moduleName) }

// VH_C19_jklmint_history: the emission record of the last block (what the next block's emission is
// computed from) next to the parameters.
func VH_C19_jklmint_history() {
	bank := zzverif.NewBank("ujkl")
	k1 := keeper.NewKeeper(zzverif.Codec(), zzverif.StoreKey("jklmint"), zzverif.Subspace("jklmint"), zzStaking{}, zzAccounts{}, bank, "fee_collector", "mining")
	k2 := keeper.NewKeeper(zzverif.Codec(), zzverif.StoreKey("jklmint.fresh"), zzverif.Subspace("jklmint.fresh"), zzStaking{}, zzAccounts{}, bank, "fee_collector", "mining")
	h := zzverif.NondetRange("height", 1, 1<<40)
	ctx := zzverif.Ctx(h, zzverif.NondetTime("blocktime"), 0)
	p := types.DefaultParams()
	p.TokensPerBlock = zzverif.NondetRange("param.TokensPerBlock", 1, 1<<40)
	k1.SetParams(ctx, p)
	rec := types.MintedBlock{Height: h, Minted: zzverif.NondetRange("minted", 0, 1<<40)}
	k1.SetMintedBlock(ctx, rec)

	gen := ExportGenesis(ctx, k1)
	zzverif.Assert(gen.Validate() == nil, "C19/jklmint-exported-genesis-validates")
	InitGenesis(ctx, k2, *gen)
	zzverif.Cover("C19/jklmint-round-trip-done")
	zzverif.Assert(k2.GetParams(ctx).TokensPerBlock == p.TokensPerBlock, "C19/jklmint-params-survive")
	got, found := k2.GetMintedBlock(ctx, h)
	zzverif.Assert(found && got.Minted == rec.Minted, "C19/jklmint-emission-record-survives")
}
