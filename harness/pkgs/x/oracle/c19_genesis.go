package oracle

import (
	"github.com/jackalLabs/canine-chain/v4/x/oracle/keeper"
	"github.com/jackalLabs/canine-chain/v4/x/oracle/types"
	"github.com/jackalLabs/canine-chain/v4/zzverif"
)

// VH_C19_oracle_feed: one feed.
func VH_C19_oracle_feed() {
	bank := zzverif.NewBank("ujkl")
	k1 := keeper.NewKeeper(zzverif.Codec(), zzverif.StoreKey("oracle"), zzverif.Subspace("oracle"), bank)
	k2 := keeper.NewKeeper(zzverif.Codec(), zzverif.StoreKey("oracle.fresh"), zzverif.Subspace("oracle.fresh"), bank)
	ctx := zzverif.Ctx(zzverif.NondetRange("height", 0, 1<<40), zzverif.NondetTime("blocktime"), 0)
	k1.SetParams(ctx, types.DefaultParams())
	f := types.Feed{Owner: zzverif.NondetAddr("feed.owner"), Data: zzverif.NondetString("feed.data"), LastUpdate: zzverif.NondetTime("feed.updated"), Name: zzverif.NondetString("feed.name")}
	k1.SetFeed(ctx, f)
	gen := ExportGenesis(ctx, *k1)
	zzverif.Assert(gen.Validate() == nil, "C19/oracle-exported-genesis-validates")
	InitGenesis(ctx, *k2, *gen)
	gen2 := ExportGenesis(ctx, *k2)
	zzverif.Cover("C19/oracle-round-trip-done")
	got, found := k2.GetFeed(ctx, f.Name)
	zzverif.Assert(found && zzverif.And(got.Owner == f.Owner, zzverif.And(got.Data == f.Data, got.LastUpdate.Equal(f.LastUpdate))), "C19/oracle-feed-survives")
	zzverif.Assert(len(gen2.FeedList) == len(gen.FeedList), "C19/oracle-second-export-lists-the-same-records")
}
