package keeper

import (
	"github.com/cosmos/cosmos-sdk/codec"
	"github.com/jackalLabs/canine-chain/v4/x/oracle/types"
	"github.com/jackalLabs/canine-chain/v4/zzverif"
)

func init() {
	zzverif.RegisterRecord("Feed", func() codec.ProtoMarshaler { return &types.Feed{} })
}
