package keeper

import (
	sdk "github.com/cosmos/cosmos-sdk/types"
	"github.com/jackalLabs/canine-chain/v4/x/oracle/types"
	"github.com/jackalLabs/canine-chain/v4/zzverif"
)

// C11 (oracle): a feed is a resource of its owner. From an arbitrary state, CreateFeed and UpdateFeed
// change an arbitrary observed feed only if it is the feed the message names, and then only when the feed
// did not exist (create: it becomes the signer's) or belongs to the signer (update: data and time only).

type zzFeeds struct {
	srv  msgServer
	k    Keeper
	ctx  sdk.Context
	name string
	pre  types.Feed
	had  bool
}

func zzFeedSetup() *zzFeeds {
	zzverif.OpenStore("oracle")
	zzverif.WFKey("oracle", "Feed", "Feed/value/", "$Name", "/")
	bank := zzverif.NewBank("ujkl")
	k := NewKeeper(zzverif.Codec(), zzverif.StoreKey("oracle"), zzverif.Subspace("oracle"), bank)
	f := &zzFeeds{k: *k, srv: msgServer{Keeper: *k}}
	f.ctx = zzverif.Ctx(zzverif.NondetRange("height", 0, 1<<40), zzverif.NondetTime("blocktime"), 0)
	dep := zzverif.NondetAddr("param.Deposit")
	depAcc, _ := sdk.AccAddressFromBech32(dep)
	zzverif.Assume(zzverif.And(!zzverif.IsModuleAddr(depAcc), !zzverif.Blocked(depAcc))) // an ordinary account
	f.k.SetParams(f.ctx, types.Params{Deposit: dep})
	f.name = zzverif.NondetString("observed.feed")
	f.pre, f.had = f.k.GetFeed(f.ctx, f.name)
	return f
}

func zzSameFeed(a, b types.Feed) bool {
	return zzverif.And(zzverif.And(a.Owner == b.Owner, a.Data == b.Data), zzverif.And(a.Name == b.Name, a.LastUpdate.Equal(b.LastUpdate)))
}

func VH_C11_oracle_create() {
	f := zzFeedSetup()
	msg := types.MsgCreateFeed{Creator: zzverif.NondetAddr("creator"), Name: zzverif.NondetString("name")}
	signer, _ := sdk.AccAddressFromBech32(msg.Creator)
	zzverif.Assume(zzverif.And(!zzverif.IsModuleAddr(signer), !zzverif.Blocked(signer))) // signers are ordinary accounts
	err, pan := zzverif.Deliver(func() error { _, er := f.srv.CreateFeed(sdk.WrapSDKContext(f.ctx), &msg); return er })
	post, has := f.k.GetFeed(f.ctx, f.name)
	if has == f.had && (!has || zzSameFeed(post, f.pre)) {
		return
	}
	zzverif.Cover("C11/oracle-create-changes-a-feed")
	zzverif.Assert(zzverif.Ok(err, pan), "C11/oracle-create-changes-only-on-success")
	zzverif.Assert(!f.had, "C11/oracle-create-never-touches-an-existing-feed")
	zzverif.Assert(has && zzverif.And(post.Owner == msg.Creator, post.Name == msg.Name), "C11/oracle-created-feed-belongs-to-the-signer")
	zzverif.Assert(string(types.FeedKey(f.name)) == string(types.FeedKey(msg.Name)), "C11/oracle-create-writes-only-the-named-feed")
}

func VH_C11_oracle_update() {
	f := zzFeedSetup()
	msg := types.MsgUpdateFeed{Creator: zzverif.NondetAddr("creator"), Name: zzverif.NondetString("name"), Data: zzverif.NondetString("data")}
	err, pan := zzverif.Deliver(func() error { _, er := f.srv.UpdateFeed(sdk.WrapSDKContext(f.ctx), &msg); return er })
	post, has := f.k.GetFeed(f.ctx, f.name)
	if has == f.had && (!has || zzSameFeed(post, f.pre)) {
		return
	}
	zzverif.Cover("C11/oracle-update-changes-a-feed")
	zzverif.Assert(zzverif.Ok(err, pan), "C11/oracle-update-changes-only-on-success")
	zzverif.Assert(f.had && has, "C11/oracle-update-neither-creates-nor-removes")
	zzverif.Assert(f.pre.Owner == msg.Creator, "C11/oracle-update-only-by-the-feed-owner")
	zzverif.Assert(zzverif.And(post.Owner == f.pre.Owner, post.Name == f.pre.Name), "C11/oracle-update-keeps-owner-and-name")
	zzverif.Assert(string(types.FeedKey(f.name)) == string(types.FeedKey(msg.Name)), "C11/oracle-update-writes-only-the-named-feed")
}
