package notifications

import (
	sdk "github.com/cosmos/cosmos-sdk/types"
	"github.com/jackalLabs/canine-chain/v4/x/notifications/keeper"
	"github.com/jackalLabs/canine-chain/v4/x/notifications/types"
	rnskeeper "github.com/jackalLabs/canine-chain/v4/x/rns/keeper"
	"github.com/jackalLabs/canine-chain/v4/zzverif"
)

func zzNotiSetup() (keeper.Keeper, keeper.Keeper, sdk.Context) {
	bank := zzverif.NewBank("ujkl")
	rk := rnskeeper.NewKeeper(zzverif.Codec(), zzverif.StoreKey("rns"), zzverif.Subspace("rns"), bank)
	k1 := keeper.NewKeeper(zzverif.Codec(), zzverif.StoreKey("notifications"), zzverif.StoreKey("mem_notifications"), zzverif.Subspace("notifications"), rk)
	k2 := keeper.NewKeeper(zzverif.Codec(), zzverif.StoreKey("notifications.fresh"), zzverif.StoreKey("mem_notifications.fresh"), zzverif.Subspace("notifications.fresh"), rk)
	ctx := zzverif.Ctx(zzverif.NondetRange("height", 0, 1<<40), zzverif.NondetTime("blocktime"), 0)
	k1.SetParams(ctx, types.DefaultParams())
	return *k1, *k2, ctx
}

// VH_C19_notifications_inbox: one notification.
func VH_C19_notifications_inbox() {
	k1, k2, ctx := zzNotiSetup()
	n := types.Notification{To: zzverif.NondetAddr("to"), From: zzverif.NondetAddr("from"), Time: zzverif.NondetRange("time", 0, 1<<50), Contents: zzverif.NondetString("contents"), PrivateContents: zzverif.NondetBytes("private")}
	k1.SetNotification(ctx, n)
	gen := ExportGenesis(ctx, k1)
	zzverif.Assert(gen.Validate() == nil, "C19/notifications-exported-genesis-validates")
	InitGenesis(ctx, k2, *gen)
	gen2 := ExportGenesis(ctx, k2)
	zzverif.Cover("C19/notifications-round-trip-done")
	got, found := k2.GetNotification(ctx, n.To, n.From, n.Time)
	zzverif.Assert(found && zzverif.And(got.Contents == n.Contents, string(got.PrivateContents) == string(n.PrivateContents)), "C19/notification-survives")
	zzverif.Assert(len(gen2.Notifications) == len(gen.Notifications), "C19/notifications-second-export-lists-the-same-records")
}

// VH_C19_notifications_blocks: one block-list entry (BlockSenders).
func VH_C19_notifications_blocks() {
	k1, k2, ctx := zzNotiSetup()
	b := types.Block{Address: zzverif.NondetAddr("owner"), BlockedAddress: zzverif.NondetAddr("blocked")}
	k1.SetBlock(ctx, b)
	zzverif.Assume(k1.IsBlocked(ctx, b.Address, b.BlockedAddress))
	gen := ExportGenesis(ctx, k1)
	zzverif.Assert(gen.Validate() == nil, "C19/notifications-exported-genesis-validates")
	InitGenesis(ctx, k2, *gen)
	zzverif.Cover("C19/notifications-blocks-round-trip-done")
	zzverif.Assert(k2.IsBlocked(ctx, b.Address, b.BlockedAddress), "C19/block-list-entry-survives")
}
