package keeper

import (
	"github.com/cosmos/cosmos-sdk/codec"
	rnstypes "github.com/jackalLabs/canine-chain/v4/x/rns/types"
	"github.com/jackalLabs/canine-chain/v4/x/notifications/types"
	"github.com/jackalLabs/canine-chain/v4/zzverif"
)

func init() {
	zzverif.RegisterRecord("Notification", func() codec.ProtoMarshaler { return &types.Notification{} })
	zzverif.RegisterRecord("Block", func() codec.ProtoMarshaler { return &types.Block{} })
	zzverif.RegisterRecord("Names", func() codec.ProtoMarshaler { return &rnstypes.Names{} })
}
