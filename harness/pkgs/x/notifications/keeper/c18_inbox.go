package keeper

import (
	sdk "github.com/cosmos/cosmos-sdk/types"
	rnskeeper "github.com/jackalLabs/canine-chain/v4/x/rns/keeper"
	"github.com/jackalLabs/canine-chain/v4/x/notifications/types"
	"github.com/jackalLabs/canine-chain/v4/zzverif"
)

func zzKeeper() (Keeper, msgServer) {
	bank := zzverif.NewBank()
	rk := rnskeeper.NewKeeper(zzverif.Codec(), zzverif.StoreKey("rns"), zzverif.Subspace("rns"), bank)
	k := NewKeeper(zzverif.Codec(), zzverif.StoreKey("notifications"), zzverif.StoreKey("mem_notifications"), zzverif.Subspace("notifications"), rk)
	return *k, msgServer{Keeper: *k}
}

type zzSent struct {
	to, from string
	contents string
	time     int64
	ok       bool
}

// VH_C18_inbox: a bounded history from the empty store: up to two CreateNotification messages and one
// BlockSenders message by arbitrary accounts, then the real inbox listing of an arbitrary address.
// The inbox holds exactly the notifications successfully sent to it, with the fields given at creation.
func VH_C18_inbox() {
	zzverif.OpenStore("rns")
	zzverif.WFKey("rns", "Names", "Names/value/", "$Name", ".", "$Tld", "/")
	zzverif.WFAddr("Names", "Value")
	k, srv := zzKeeper()
	h := zzverif.NondetRange("height", 1, 1<<40)
	ctx := zzverif.Ctx(h, zzverif.NondetTime("blocktime"), 0)
	nSend := zzverif.NondetLen("sends", 1, 2)
	blockFirst := zzverif.NondetBool("block.first")
	blocker, blocked := zzverif.NondetAddr("blocker"), zzverif.NondetAddr("blocked")
	doBlock := func() {
		zzverif.Deliver(func() error {
			_, e := srv.BlockSenders(sdk.WrapSDKContext(ctx), &types.MsgBlockSenders{Creator: blocker, ToBlock: []string{blocked}})
			return e
		})
	}
	if blockFirst {
		doBlock()
	}
	var sent []zzSent
	for i := 0; i < nSend; i++ {
		tag := "send" + string(rune('0'+i))
		s := zzSent{to: zzverif.NondetAddr(tag + ".to"), from: zzverif.NondetAddr(tag + ".from"), contents: zzverif.NondetString(tag + ".contents")}
		wasBlocked := k.IsBlocked(ctx, s.to, s.from)
		err, pan := zzverif.Deliver(func() error {
			_, e := srv.CreateNotification(sdk.WrapSDKContext(ctx), &types.MsgCreateNotification{Creator: s.from, To: s.to, Contents: s.contents, PrivateContents: []byte{}})
			return e
		})
		s.ok = zzverif.Ok(err, pan)
		s.time = ctx.BlockTime().UnixMicro()
		zzverif.Assert(!(s.ok && wasBlocked), "C18/blocked-sender-cannot-deliver")
		if blockFirst && s.to == blocker && s.from == blocked {
			zzverif.Assert(!s.ok, "C18/blocked-pair-rejected")
		}
		sent = append(sent, s)
	}
	if !blockFirst {
		doBlock()
	}
	inboxOf := zzverif.NondetAddr("inbox.owner")
	list := k.GetAllNotificationsByAddress(ctx, inboxOf)
	for _, n := range list {
		match := false
		for _, s := range sent {
			match = zzverif.Or(match, zzverif.And(s.ok, zzverif.And(n.To == s.to && n.From == s.from, zzverif.And(n.Time == s.time, n.Contents == s.contents))))
		}
		zzverif.Assert(zzverif.And(match, n.To == inboxOf), "C18/every-listed-entry-was-sent-to-this-inbox")
	}
	for _, s := range sent {
		if s.ok && s.to == inboxOf {
			present := false
			for _, n := range list {
				present = zzverif.Or(present, zzverif.And(n.From == s.from, n.Time == s.time))
			}
			zzverif.Assert(present, "C18/every-sent-notification-is-listed")
		}
	}
	zzverif.Cover("C18/inbox-listed")
}

// VH_C18_delete: only the recipient can delete from its inbox: a delete message changes no entry whose
// recipient is another account.
func VH_C18_delete() {
	zzverif.OpenStore("notifications")
	zzverif.OpenStore("rns")
	zzverif.WFKey("notifications", "Notification", "Notification/", "$To", "/", "$From", "/", "dec:$Time")
	k, srv := zzKeeper()
	ctx := zzverif.Ctx(zzverif.NondetRange("height", 1, 1<<40), zzverif.NondetTime("blocktime"), 0)
	to, from, t := zzverif.NondetAddr("entry.to"), zzverif.NondetAddr("entry.from"), zzverif.NondetInt64("entry.time")
	pre, found := k.GetNotification(ctx, to, from, t)
	msg := types.MsgDeleteNotification{Creator: zzverif.NondetAddr("creator"), From: zzverif.NondetString("msg.from"), Time: zzverif.NondetInt64("msg.time")}
	err, pan := zzverif.Deliver(func() error { _, e := srv.DeleteNotification(sdk.WrapSDKContext(ctx), &msg); return e })
	post, pfound := k.GetNotification(ctx, to, from, t)
	if msg.Creator != to {
		zzverif.Assert(pfound == found && (!found || post.Contents == pre.Contents), "C18/delete-leaves-other-inboxes-alone")
	}
	if found && !pfound {
		zzverif.Assert(msg.Creator == to, "C18/only-the-recipient-deletes")
		zzverif.Cover("C18/delete-removes")
	}
	_ = err
	_ = pan
}

// VH_C18_blocked_recipient_by_name: the recipient may be given as an RNS name. Whatever spelling the
// message uses, a sender the resolved account has blocked cannot deliver, and a delivered notification sits
// in the resolved account's inbox.
func VH_C18_blocked_recipient_by_name() {
	zzverif.OpenStore("rns")
	zzverif.WFKey("rns", "Names", "Names/value/", "$Name", ".", "$Tld", "/")
	zzverif.WFAddr("Names", "Value")
	k, srv := zzKeeper()
	h := zzverif.NondetRange("height", 1, 1<<40)
	ctx := zzverif.Ctx(h, zzverif.NondetTime("blocktime"), 0)
	blocker, blocked := zzverif.NondetAddr("blocker"), zzverif.NondetAddr("blocked")
	zzverif.Deliver(func() error {
		_, e := srv.BlockSenders(sdk.WrapSDKContext(ctx), &types.MsgBlockSenders{Creator: blocker, ToBlock: []string{blocked}})
		return e
	})
	// the sender is any string the message validation accepts as the signer's address (bech32 decoding
	// accepts more than one spelling of an account); blocking is a matter of accounts, not of spellings
	to, from := zzverif.NondetString("to"), zzverif.NondetString("from")
	fromAcc, ferr := sdk.AccAddressFromBech32(from)
	zzverif.Assume(ferr == nil) // ValidateBasic
	addr, rerr := k.rns.Resolve(ctx, to)
	zzverif.Assume(rerr == nil)
	wasBlocked := k.IsBlocked(ctx, addr.String(), fromAcc.String())
	err, pan := zzverif.Deliver(func() error {
		_, e := srv.CreateNotification(sdk.WrapSDKContext(ctx), &types.MsgCreateNotification{Creator: from, To: to, Contents: zzverif.NondetString("contents"), PrivateContents: []byte{}})
		return e
	})
	ok := zzverif.Ok(err, pan)
	if wasBlocked {
		zzverif.Cover("C18/blocked-sender-tries")
	}
	zzverif.Assert(!(ok && wasBlocked), "C18/blocked-sender-cannot-deliver-under-any-spelling-of-the-recipient")
	if ok {
		zzverif.Cover("C18/delivered-by-name-or-address")
		_, found := k.GetNotification(ctx, addr.String(), from, ctx.BlockTime().UnixMicro())
		_, found2 := k.GetNotification(ctx, addr.String(), fromAcc.String(), ctx.BlockTime().UnixMicro())
		zzverif.Assert(found || found2, "C18/delivered-notification-is-in-the-resolved-inbox")
	}
}
