package keeper

import (
	"crypto/sha256"
	"encoding/json"
	"fmt"
	"strings"

	sdk "github.com/cosmos/cosmos-sdk/types"
	"github.com/jackalLabs/canine-chain/v4/x/filetree/types"
	"github.com/jackalLabs/canine-chain/v4/zzverif"
)

// ---- independent specification of the id scheme (x/filetree README) ----

func zzHexHash(s string) string {
	h := sha256.New()
	h.Write([]byte(s))
	return fmt.Sprintf("%x", h.Sum(nil))
}

// zzOwnerID: the owner id of an entry at `address` held by the account whose hex-hash is accountHash.
func zzOwnerID(address, accountHash string) string { return zzHexHash("o" + address + accountHash) }

// zzIsOwner: `user` (a bech32 account string) owns the entry.
func zzIsOwner(e types.Files, user string) bool { return e.Owner == zzOwnerID(e.Address, zzHexHash(user)) }

func zzAccessID(kind byte, tracking, user string) string { return zzHexHash(string(kind) + tracking + user) }

func zzLookup(text, id string) (string, bool, bool) {
	m := make(map[string]string)
	if err := json.Unmarshal([]byte(text), &m); err != nil {
		return "", false, false
	}
	v, ok := m[id]
	return v, ok, true
}

type zzTree struct {
	k     Keeper
	srv   msgServer
	ctx   sdk.Context
	tAddr string
	tOwn  string
	pre   types.Files
	found bool
}

func zzTreeSetup() *zzTree {
	zzverif.OpenStore("filetree")
	zzverif.WFKey("filetree", "Files", "Files/value/", "$Address", "/", "$Owner", "/")
	k := NewKeeper(zzverif.Codec(), zzverif.StoreKey("filetree"), zzverif.StoreKey("mem_filetree"), zzverif.Subspace("filetree"))
	t := &zzTree{k: *k, srv: msgServer{Keeper: *k}}
	t.ctx = zzverif.Ctx(zzverif.NondetRange("height", 0, 1<<40), zzverif.NondetTime("blocktime"), 0)
	// the observed (Skolem) entry: any address / owner id strings, also crafted ones
	t.tAddr, t.tOwn = zzverif.NondetString("target.address"), zzverif.NondetString("target.owner")
	t.pre, t.found = t.k.GetFiles(t.ctx, t.tAddr, t.tOwn)
	return t
}

// zzDiff reports whether the observed entry changed, and which parts.
func (t *zzTree) zzDiff() (changed bool, post types.Files, pfound bool) {
	post, pfound = t.k.GetFiles(t.ctx, t.tAddr, t.tOwn)
	if pfound != t.found {
		return true, post, pfound
	}
	if !pfound {
		return false, post, pfound
	}
	ch := zzverif.Or(post.Contents != t.pre.Contents, post.Owner != t.pre.Owner)
	ch = zzverif.Or(ch, zzverif.Or(post.ViewingAccess != t.pre.ViewingAccess, post.EditAccess != t.pre.EditAccess))
	ch = zzverif.Or(ch, zzverif.Or(post.TrackingNumber != t.pre.TrackingNumber, post.Address != t.pre.Address))
	return ch, post, pfound
}

// zzSame: the two (address, owner id) pairs name the same tree entry (the same store slot; crafted
// strings containing the separator can spell one slot in two ways).
func zzSame(a1, o1, a2, o2 string) bool {
	return string(types.FilesKey(a1, o1)) == string(types.FilesKey(a2, o2))
}

func zzIDs(tag string) (string, []string) {
	n := zzverif.NondetLen(tag+".count", 1, 2)
	var ids []string
	for i := 0; i < n; i++ {
		s := zzverif.NondetString(fmt.Sprintf("%s%d", tag, i))
		zzverif.Assume(!strings.Contains(s, ","))
		ids = append(ids, s)
	}
	return strings.Join(ids, ","), ids
}

func VH_C10_delete() {
	t := zzTreeSetup()
	msg := types.MsgDeleteFile{Creator: zzverif.NondetAddr("creator"), HashPath: zzverif.NondetString("hashpath"), Account: zzverif.NondetString("account")}
	err, pan := zzverif.Deliver(func() error { _, e := t.srv.DeleteFile(sdk.WrapSDKContext(t.ctx), &msg); return e })
	ch, _, pfound := t.zzDiff()
	if ch {
		zzverif.Cover("C10/delete-changes-target")
		zzverif.Assert(zzverif.Ok(err, pan), "C10/delete-change-only-on-success")
		zzverif.Assert(t.found && !pfound, "C10/delete-only-removes")
		zzverif.Assert(zzSame(t.tAddr, t.tOwn, msg.HashPath, zzOwnerID(msg.HashPath, msg.Account)), "C10/delete-only-the-named-entry")
		zzverif.Assert(zzIsOwner(t.pre, msg.Creator), "C10/delete-signed-by-owner")
	}
}

func VH_C10_change_owner() {
	t := zzTreeSetup()
	msg := types.MsgChangeOwner{Creator: zzverif.NondetAddr("creator"), Address: zzverif.NondetString("address"), FileOwner: zzverif.NondetString("fileowner"), NewOwner: zzverif.NondetString("newowner")}
	// the entry the message names
	cur := zzOwnerID(msg.Address, msg.FileOwner)
	src, sfound := t.k.GetFiles(t.ctx, msg.Address, cur)
	err, pan := zzverif.Deliver(func() error { _, e := t.srv.ChangeOwner(sdk.WrapSDKContext(t.ctx), &msg); return e })
	ch, post, pfound := t.zzDiff()
	if ch {
		zzverif.Cover("C10/changeowner-changes-target")
		zzverif.Assert(zzverif.Ok(err, pan) && sfound, "C10/changeowner-change-only-on-success")
		zzverif.Assert(zzIsOwner(src, msg.Creator), "C10/changeowner-signed-by-owner")
		isOld := zzSame(t.tAddr, t.tOwn, msg.Address, cur)
		isNew := zzSame(t.tAddr, t.tOwn, msg.Address, zzOwnerID(msg.Address, msg.NewOwner))
		zzverif.Assert(isOld || isNew, "C10/changeowner-touches-only-old-and-new-slot")
		if isNew && !isOld {
			zzverif.Assert(!t.found && pfound, "C10/changeowner-never-overwrites-an-existing-entry")
			zzverif.Assert(zzverif.And(post.Contents == src.Contents, zzverif.And(post.ViewingAccess == src.ViewingAccess, post.EditAccess == src.EditAccess)), "C10/changeowner-moves-the-entry-unchanged")
		}
	}
}

// zzAccess covers the six viewer/editor list messages.
func zzAccess(kind string) {
	t := zzTreeSetup()
	creator := zzverif.NondetAddr("creator")
	address, fileOwner := zzverif.NondetString("address"), zzverif.NondetString("fileowner")
	idsText, ids := zzIDs("id")
	keysText, keys := zzIDs("key")
	zzverif.Assume(len(keys) >= len(ids)) // fewer keys than ids makes the handler panic (rolled back)
	probe := zzverif.NondetString("probe.id") // Skolem access id
	named := false
	for _, id := range ids {
		named = zzverif.Or(named, probe == id)
	}
	preV, preVok, preVvalid := zzLookup(t.pre.ViewingAccess, probe)
	preE, preEok, preEvalid := zzLookup(t.pre.EditAccess, probe)
	var err error
	var pan bool
	goctx := sdk.WrapSDKContext(t.ctx)
	switch kind {
	case "addviewers":
		err, pan = zzverif.Deliver(func() error {
			_, e := t.srv.AddViewers(goctx, &types.MsgAddViewers{Creator: creator, ViewerIds: idsText, ViewerKeys: keysText, Address: address, FileOwner: fileOwner})
			return e
		})
	case "removeviewers":
		err, pan = zzverif.Deliver(func() error {
			_, e := t.srv.RemoveViewers(goctx, &types.MsgRemoveViewers{Creator: creator, ViewerIds: idsText, Address: address, FileOwner: fileOwner})
			return e
		})
	case "resetviewers":
		err, pan = zzverif.Deliver(func() error {
			_, e := t.srv.ResetViewers(goctx, &types.MsgResetViewers{Creator: creator, Address: address, FileOwner: fileOwner})
			return e
		})
	case "addeditors":
		err, pan = zzverif.Deliver(func() error {
			_, e := t.srv.AddEditors(goctx, &types.MsgAddEditors{Creator: creator, EditorIds: idsText, EditorKeys: keysText, Address: address, FileOwner: fileOwner})
			return e
		})
	case "removeeditors":
		err, pan = zzverif.Deliver(func() error {
			_, e := t.srv.RemoveEditors(goctx, &types.MsgRemoveEditors{Creator: creator, EditorIds: idsText, Address: address, FileOwner: fileOwner})
			return e
		})
	case "reseteditors":
		err, pan = zzverif.Deliver(func() error {
			_, e := t.srv.ResetEditors(goctx, &types.MsgResetEditors{Creator: creator, Address: address, FileOwner: fileOwner})
			return e
		})
	}
	viewers := strings.HasSuffix(kind, "viewers")
	ch, post, pfound := t.zzDiff()
	if !ch {
		return
	}
	zzverif.Cover("C10/" + kind + "-changes-target")
	zzverif.Assert(zzverif.Ok(err, pan), "C10/"+kind+"-change-only-on-success")
	zzverif.Assert(t.found && pfound, "C10/"+kind+"-neither-creates-nor-deletes")
	zzverif.Assert(zzSame(t.tAddr, t.tOwn, address, fileOwner), "C10/"+kind+"-only-the-named-entry")
	zzverif.Assert(zzIsOwner(t.pre, creator), "C10/"+kind+"-signed-by-owner")
	zzverif.Assert(zzverif.And(post.Contents == t.pre.Contents, zzverif.And(post.Owner == t.pre.Owner, post.TrackingNumber == t.pre.TrackingNumber)), "C10/"+kind+"-keeps-contents-and-owner")
	if viewers {
		zzverif.Assert(post.EditAccess == t.pre.EditAccess, "C10/"+kind+"-keeps-the-other-list")
	} else {
		zzverif.Assert(post.ViewingAccess == t.pre.ViewingAccess, "C10/"+kind+"-keeps-the-other-list")
	}
	// the list that was edited, looked up at the Skolem id
	var postVal, preVal string
	var postOk, preOk, preValid bool
	if viewers {
		postVal, postOk, _ = zzLookup(post.ViewingAccess, probe)
		preVal, preOk, preValid = preV, preVok, preVvalid
	} else {
		postVal, postOk, _ = zzLookup(post.EditAccess, probe)
		preVal, preOk, preValid = preE, preEok, preEvalid
	}
	_ = preValid
	switch {
	case strings.HasPrefix(kind, "add"):
		if !named {
			zzverif.Assert(postOk == preOk && (!postOk || postVal == preVal), "C10/"+kind+"-other-ids-untouched")
		} else {
			zzverif.Assert(postOk, "C10/"+kind+"-named-id-present")
		}
	case strings.HasPrefix(kind, "remove"):
		if !named {
			zzverif.Assert(postOk == preOk && (!postOk || postVal == preVal), "C10/"+kind+"-other-ids-untouched")
		} else {
			zzverif.Assert(!postOk, "C10/"+kind+"-named-id-gone")
		}
	case strings.HasPrefix(kind, "reset"):
		k := byte('v')
		if !viewers {
			k = 'e'
		}
		own := zzAccessID(k, t.pre.TrackingNumber, creator)
		if probe == own {
			zzverif.Assert(postOk && (!preOk || postVal == preVal), "C10/"+kind+"-keeps-the-owners-own-entry")
		} else {
			zzverif.Assert(!postOk, "C10/"+kind+"-drops-every-other-id")
		}
	}
}

func VH_C10_addviewers()    { zzAccess("addviewers") }
func VH_C10_removeviewers() { zzAccess("removeviewers") }
func VH_C10_resetviewers()  { zzAccess("resetviewers") }
func VH_C10_addeditors()    { zzAccess("addeditors") }
func VH_C10_removeeditors() { zzAccess("removeeditors") }
func VH_C10_reseteditors()  { zzAccess("reseteditors") }

func VH_C10_post() {
	t := zzTreeSetup()
	msg := types.MsgPostFile{Creator: zzverif.NondetAddr("creator"), Account: zzverif.NondetString("account"), HashParent: zzverif.NondetString("hashparent"),
		HashChild: zzverif.NondetString("hashchild"), Contents: zzverif.NondetString("contents"), Viewers: zzverif.NondetString("viewers"),
		Editors: zzverif.NondetString("editors"), TrackingNumber: zzverif.NondetString("tracking")}
	parent, pfoundParent := t.k.GetFiles(t.ctx, msg.HashParent, zzOwnerID(msg.HashParent, msg.Account))
	var resp *types.MsgPostFileResponse
	err, pan := zzverif.Deliver(func() error { r, e := t.srv.PostFile(sdk.WrapSDKContext(t.ctx), &msg); resp = r; return e })
	ch, post, pfound := t.zzDiff()
	child := types.AddToMerkle(msg.HashParent, msg.HashChild)
	if zzverif.Ok(err, pan) {
		zzverif.Cover("C10/post-succeeds")
		zzverif.Assert(resp != nil && resp.Path == child, "C10/post-returns-the-child-address")
		zzverif.Assert(pfoundParent, "C10/post-needs-the-parent-folder")
		_, isEditor, _ := zzLookup(parent.EditAccess, zzAccessID('e', parent.TrackingNumber, msg.Creator))
		zzverif.Assert(isEditor, "C10/post-signed-by-an-editor-of-the-folder")
	}
	if ch {
		zzverif.Cover("C10/post-changes-target")
		zzverif.Assert(zzverif.Ok(err, pan), "C10/post-change-only-on-success")
		zzverif.Assert(zzSame(t.tAddr, t.tOwn, child, zzOwnerID(child, msg.Account)), "C10/post-writes-only-the-child-owned-by-the-folders-account")
		zzverif.Assert(pfound && post.Contents == msg.Contents && post.TrackingNumber == msg.TrackingNumber, "C10/post-stores-the-posted-entry")
	}
}

func VH_C10_provision() {
	t := zzTreeSetup()
	msg := types.MsgProvisionFileTree{Creator: zzverif.NondetAddr("creator"), Viewers: zzverif.NondetString("viewers"), Editors: zzverif.NondetString("editors"), TrackingNumber: zzverif.NondetString("tracking")}
	err, pan := zzverif.Deliver(func() error { _, e := t.srv.ProvisionFileTree(sdk.WrapSDKContext(t.ctx), &msg); return e })
	ch, _, pfound := t.zzDiff()
	if ch {
		zzverif.Cover("C10/provision-changes-target")
		zzverif.Assert(zzverif.Ok(err, pan) && pfound, "C10/provision-change-only-on-success")
		root := types.MerklePath("s")
		zzverif.Assert(zzSame(t.tAddr, t.tOwn, root, zzOwnerID(root, zzHexHash(msg.Creator))), "C10/provision-writes-only-the-signers-root")
	}
}
