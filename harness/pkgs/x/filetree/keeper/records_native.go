package keeper

import (
	"github.com/cosmos/cosmos-sdk/codec"
	"github.com/jackalLabs/canine-chain/v4/x/filetree/types"
	"github.com/jackalLabs/canine-chain/v4/zzverif"
)

func init() {
	zzverif.RegisterRecord("Files", func() codec.ProtoMarshaler { return &types.Files{} })
	zzverif.RegisterRecord("Pubkey", func() codec.ProtoMarshaler { return &types.Pubkey{} })
}
