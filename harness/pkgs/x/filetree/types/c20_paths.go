package types

import (
	"crypto/sha256"
	"fmt"
	"strings"

	"github.com/jackalLabs/canine-chain/v4/zzverif"
)

func zzSeg(tag string) string {
	s := zzverif.NondetString(tag)
	zzverif.Assume(!strings.Contains(s, "/"))
	return s
}

func zzHexHash(s string) string {
	h := sha256.New()
	h.Write([]byte(s))
	return fmt.Sprintf("%x", h.Sum(nil))
}

func zzPath(n int, tag string) (string, []string) {
	var segs []string
	p := ""
	for i := 0; i < n; i++ {
		s := zzSeg(fmt.Sprintf("%s%d", tag, i))
		segs = append(segs, s)
		if i > 0 {
			p += "/"
		}
		p += s
	}
	return p, segs
}

// VH_C20_child: address(parent/child) = AddToMerkle(address(parent), hash(child)) for parents of 1..3
// segments over arbitrary byte strings (also empty ones), under A-HASH.
func VH_C20_child() {
	n := zzverif.NondetLen("parent.segments", 1, 3)
	parent, segs := zzPath(n, "seg")
	child := zzSeg("child")
	// a parent path is written without trailing slash (the trailing slash is neutral, see below)
	zzverif.Assume(segs[n-1] != "")
	// an empty last segment followed by nothing is the trailing-slash case (checked separately)
	zzverif.Assume(child != "")
	got := MerklePath(parent + "/" + child)
	want := AddToMerkle(MerklePath(parent), zzHexHash(child))
	zzverif.Assert(got == want, "C20/child-address-from-parent-address")
	zzverif.Cover("C20/child-reached")
}

// VH_C20_trailing_slash: a trailing slash does not change the address.
func VH_C20_trailing_slash() {
	n := zzverif.NondetLen("segments", 1, 3)
	p, segs := zzPath(n, "seg")
	zzverif.Assume(segs[n-1] != "") // p does not already end in a slash
	zzverif.Assert(MerklePath(p+"/") == MerklePath(p), "C20/trailing-slash-neutral")
	zzverif.Cover("C20/trailing-reached")
}

// VH_C20_injective: different segment sequences (lengths 1..3) have different addresses.
func VH_C20_injective() {
	n := zzverif.NondetLen("a.segments", 1, 3)
	m := zzverif.NondetLen("b.segments", 1, 3)
	pa, sa := zzPath(n, "a")
	pb, sb := zzPath(m, "b")
	zzverif.Assume(sa[n-1] != "" && sb[m-1] != "") // no trailing slash (neutral, see above)
	same := n == m
	if same {
		for i := range sa {
			same = zzverif.And(same, sa[i] == sb[i])
		}
	}
	if MerklePath(pa) == MerklePath(pb) {
		zzverif.Assert(same, "C20/equal-address-implies-equal-segments")
	}
	zzverif.Cover("C20/injective-reached")
}
