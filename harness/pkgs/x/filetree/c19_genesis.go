package filetree

import (
	"github.com/jackalLabs/canine-chain/v4/x/filetree/keeper"
	"github.com/jackalLabs/canine-chain/v4/x/filetree/types"
	"github.com/jackalLabs/canine-chain/v4/zzverif"
)

// VH_C19_filetree_records: one tree entry and one public key.
func VH_C19_filetree_records() {
	k1 := keeper.NewKeeper(zzverif.Codec(), zzverif.StoreKey("filetree"), zzverif.StoreKey("mem_filetree"), zzverif.Subspace("filetree"))
	k2 := keeper.NewKeeper(zzverif.Codec(), zzverif.StoreKey("filetree.fresh"), zzverif.StoreKey("mem_filetree.fresh"), zzverif.Subspace("filetree.fresh"))
	ctx := zzverif.Ctx(zzverif.NondetRange("height", 0, 1<<40), zzverif.NondetTime("blocktime"), 0)
	k1.SetParams(ctx, types.DefaultParams())
	f := types.Files{Address: zzverif.NondetString("file.address"), Contents: zzverif.NondetString("file.contents"), Owner: zzverif.NondetString("file.owner"),
		ViewingAccess: zzverif.NondetString("file.viewers"), EditAccess: zzverif.NondetString("file.editors"), TrackingNumber: zzverif.NondetString("file.tracking")}
	k1.SetFiles(ctx, f)
	pk := types.Pubkey{Address: zzverif.NondetAddr("pubkey.address"), Key: zzverif.NondetString("pubkey.key")}
	k1.SetPubkey(ctx, pk)

	gen := ExportGenesis(ctx, *k1)
	zzverif.Assert(gen.Validate() == nil, "C19/filetree-exported-genesis-validates")
	InitGenesis(ctx, *k2, *gen)
	gen2 := ExportGenesis(ctx, *k2)
	zzverif.Cover("C19/filetree-round-trip-done")
	got, found := k2.GetFiles(ctx, f.Address, f.Owner)
	zzverif.Assert(found && zzverif.And(got.Contents == f.Contents, zzverif.And(got.ViewingAccess == f.ViewingAccess, zzverif.And(got.EditAccess == f.EditAccess, got.TrackingNumber == f.TrackingNumber))), "C19/filetree-entry-survives")
	gk, kf := k2.GetPubkey(ctx, pk.Address)
	zzverif.Assert(kf && gk.Key == pk.Key, "C19/filetree-pubkey-survives")
	zzverif.Assert(len(gen2.FilesList) == len(gen.FilesList) && len(gen2.PubKeyList) == len(gen.PubKeyList), "C19/filetree-second-export-lists-the-same-records")
}
