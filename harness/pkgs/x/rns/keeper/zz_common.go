package keeper

import (
	sdk "github.com/cosmos/cosmos-sdk/types"
	"github.com/jackalLabs/canine-chain/v4/zzverif"
)

// zzWorld builds the real rns Keeper over the model environment.
func zzKeeper(bank *zzverif.Bank) Keeper {
	return Keeper{cdc: zzverif.Codec(), storeKey: zzverif.StoreKey("rns"), paramstore: zzverif.Subspace("rns"), bankKeeper: bank}
}

func zzCtx() (sdk.Context, int64) {
	h := zzverif.NondetRange("height", 0, 1<<40)
	return zzverif.Ctx(h, zzverif.NondetTime("blocktime"), 0), h
}
