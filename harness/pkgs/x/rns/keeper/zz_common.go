package keeper

import (
	"strings"
	sdk "github.com/cosmos/cosmos-sdk/types"
	"github.com/jackalLabs/canine-chain/v4/x/rns/types"
	"github.com/jackalLabs/canine-chain/v4/zzverif"
)

// zzKeeper builds the real rns Keeper over the model environment.
func zzKeeper(bank *zzverif.Bank) Keeper {
	return Keeper{cdc: zzverif.Codec(), storeKey: zzverif.StoreKey("rns"), paramstore: zzverif.Subspace("rns"), bankKeeper: bank}
}

func zzCtx() (sdk.Context, int64) {
	h := zzverif.NondetRange("height", 0, 1<<40)
	return zzverif.Ctx(h, zzverif.NondetTime("blocktime"), 0), h
}

// zzTarget is an arbitrary (Skolem) name record observed before and after a message.
type zzTarget struct {
	n, tld string
	pre    types.Names
	found  bool
	live   bool
	owner  sdk.AccAddress
}

// zzObserve reads the record of an arbitrary lower-case (name, tld) through the real getter and
// assumes the well-formedness every writer of Names records establishes (DESIGN Appendix D).
func zzObserve(k Keeper, ctx sdk.Context, h int64) zzTarget {
	t := zzTarget{n: zzverif.NondetString("target.name"), tld: zzverif.NondetString("target.tld")}
	zzverif.Assume(zzverif.IsLowerASCII(t.n))
	zzverif.Assume(zzverif.IsLowerASCII(t.tld))
	t.pre, t.found = k.GetNames(ctx, t.n, t.tld)
	if t.found {
		zzverif.Assume(zzverif.And(t.pre.Name == t.n, t.pre.Tld == t.tld))
		var err error
		t.owner, err = sdk.AccAddressFromBech32(t.pre.Value)
		zzverif.Assume(err == nil)
		t.live = h <= t.pre.Expires
	}
	return t
}

// zzChanged: owner, data, expiry or record list of the target differ after the step.
func zzChanged(k Keeper, ctx sdk.Context, t zzTarget) (bool, types.Names) {
	post, pfound := k.GetNames(ctx, t.n, t.tld)
	if pfound != t.found {
		return true, post
	}
	if !pfound {
		return false, post
	}
	ch := zzverif.Or(post.Value != t.pre.Value, post.Data != t.pre.Data)
	ch = zzverif.Or(ch, post.Expires != t.pre.Expires)
	ch = zzverif.Or(ch, post.Locked != t.pre.Locked)
	ch = zzverif.Or(ch, len(post.Subdomains) != len(t.pre.Subdomains))
	if !ch {
		for i := range post.Subdomains {
			a, b := post.Subdomains[i], t.pre.Subdomains[i]
			ch = zzverif.Or(ch, zzverif.Or(a.Name != b.Name, zzverif.Or(a.Value != b.Value, a.Data != b.Data)))
		}
	}
	return ch, post
}

func zzSameAccount(a string, b sdk.AccAddress) bool {
	x, err := sdk.AccAddressFromBech32(a)
	return err == nil && string(x) == string(b)
}

func zzverifLower(s string) string { return strings.ToLower(s) }

// zzWF: well-formedness of open-world rns records (DESIGN Appendix D) - each clause is what every
// writer of that record kind establishes.
func zzWF() {
	zzverif.WFKey("rns", "Names", "Names/value/", "$Name", ".", "$Tld", "/")
	zzverif.WFAddr("Names", "Value")
	// names pass ValidateBasic (`^[\\w-]+$`) or come from MakeName: no dot; the TLD is a supported one
	// expiry heights are written as height + years*5484530 with bounded years: far below 2^62
	zzverif.WF("Names", "nocontain:Name:.", "oneof:Tld:ibc,jkl", "lower:Name", "nonneg:Expires", "le:Expires:4611686018427387904")
	zzverif.WFAddr("Forsale", "Owner")
	zzverif.WFAddr("Bids", "Bidder")
	zzverif.WF("Bids", "coin:Price")
	zzverif.WFKey("rns", "Forsale", "Forsale/value/", "$Name", "/")
	zzverif.WFKey("rns", "Bids", "Bids/value/", "$Index", "/")
	zzverif.WFKey("rns", "Init", "Init/value/", "$Address", "/")
}
