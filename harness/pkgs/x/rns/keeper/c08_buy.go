package keeper

import (
	"strings"

	sdk "github.com/cosmos/cosmos-sdk/types"
	"github.com/jackalLabs/canine-chain/v4/x/rns/types"
	"github.com/jackalLabs/canine-chain/v4/zzverif"
)

// VH_C08_buy: contract of the real BuyName from an arbitrary well-formed store (open world).
// If the ownership of a live name changes, the sale listing was created by the current owner and
// the current owner was paid the listed price; a failed purchase changes nothing.
func VH_C08_buy() {
	k, bank, ctx, h, _ := zzSetup()
	buyer := zzverif.NondetString("buyer")
	nm := zzverif.NondetString("name")

	lnm := strings.ToLower(nm)
	n, tld, perr := GetNameAndTLD(lnm)
	zzverif.Assume(perr == nil)
	pre, found := k.GetNames(ctx, n, tld)
	// WF (Appendix D): a stored name record sits at the key of its own fields; owner is canonical bech32
	zzverif.Assume(!found || (pre.Name == n && pre.Tld == tld))
	sale, listed := k.GetForsale(ctx, lnm)
	zzverif.Assume(!listed || sale.Name == lnm)
	live := found && h <= pre.Expires

	var ownerAddr sdk.AccAddress
	var price sdk.Coin
	var ownerBal0, buyerBal0 zzverif.Z
	buyerAddr, berr := sdk.AccAddressFromBech32(buyer)
	if live {
		var oerr error
		ownerAddr, oerr = sdk.AccAddressFromBech32(pre.Value)
		zzverif.Assume(oerr == nil) // WF: owner of a stored name is a valid address
		zzverif.Assume(!zzverif.Blocked(ownerAddr))
		zzverif.Assume(string(ownerAddr) != string(zzverif.ModuleAddr(types.ModuleName)))
	}
	if listed {
		var cerr error
		price, cerr = sdk.ParseCoinNormalized(sale.Price)
		if cerr == nil && live {
			ownerBal0 = bank.ZBal(ownerAddr, price.Denom)
			if berr == nil {
				buyerBal0 = bank.ZBal(buyerAddr, price.Denom)
			}
		}
	}

	err, pan := zzverif.Deliver(func() error { return k.BuyName(ctx, buyer, nm) })

	post, pfound := k.GetNames(ctx, n, tld)
	if live {
		zzverif.Assert(pfound, "C08/buy-live-name-still-exists")
		if post.Value != pre.Value {
			zzverif.Cover("C08/buy-ownership-moved")
			zzverif.Assert(zzverif.Ok(err, pan) && listed, "C08/buy-needs-listing")
			zzverif.Assert(post.Value == buyer, "C08/buy-new-owner-is-buyer")
			// compared as accounts (address bytes), not spellings
			saleOwnerAddr, soerr := sdk.AccAddressFromBech32(sale.Owner)
			zzverif.Assert(soerr == nil && string(saleOwnerAddr) == string(ownerAddr), "C08/buy-listing-by-current-owner")
			// (a second spelling of the owner's own address - bech32 is case-insensitive - pays itself)
			if string(buyerAddr) != string(ownerAddr) {
				zzverif.Assert(bank.ZBal(ownerAddr, price.Denom).Eq(ownerBal0.Add(zzverif.ZOfBig(price.Amount.BigInt()))), "C08/buy-previous-owner-paid-price")
				zzverif.Assert(bank.ZBal(buyerAddr, price.Denom).Eq(buyerBal0.Sub(zzverif.ZOfBig(price.Amount.BigInt()))), "C08/buy-buyer-debited-price")
			}
		} else {
			zzverif.Assert(post.Data == pre.Data || zzverif.Ok(err, pan), "C08/buy-failed-keeps-data")
		}
	}
	if !zzverif.Ok(err, pan) {
		zzverif.Assert(pfound == found && (!found || (post.Value == pre.Value && post.Data == pre.Data && post.Expires == pre.Expires)), "C08/buy-failure-changes-nothing")
		zzverif.Cover("C08/buy-fails")
	} else {
		zzverif.Cover("C08/buy-succeeds")
	}
}
