package keeper

import (
	"strings"

	"github.com/jackalLabs/canine-chain/v4/zzverif"
)

func VH_DBG_lower() {
	nm := zzverif.NondetString("name")
	l := strings.ToLower(nm)
	zzverif.Assume(len(l) > 4)
	n := l[:len(l)-4]
	zzverif.Assert(strings.ToLower(n) == n, "lower-idem")
}
