package keeper

import (
	sdk "github.com/cosmos/cosmos-sdk/types"
	"github.com/jackalLabs/canine-chain/v4/x/rns/types"
	"github.com/jackalLabs/canine-chain/v4/zzverif"
)

// C09 as delta obligations: the rns module account changes, per denomination, by exactly the change of
// the open bid it names; every other bid slot is untouched (Skolem slot); register/buy leave no residue.

func zzBidAmount(b types.Bids, found bool, denom string) zzverif.Z {
	if !found {
		return zzverif.ZOf(0)
	}
	cs, err := sdk.ParseCoinsNormalized(b.Price)
	zzverif.Assume(err == nil) // WF: a stored bid holds a parsable price (written from Coin.String())
	return zzverif.ZOfBig(cs.AmountOf(denom).BigInt())
}

type zzEscrow struct {
	slot, other  string
	denom        string
	preAmt       zzverif.Z
	opre         types.Bids
	ofound       bool
	mod0         zzverif.Z
}

func zzEscrowBefore(k Keeper, bank *zzverif.Bank, ctx sdk.Context, slot string) zzEscrow {
	e := zzEscrow{slot: slot, other: zzverif.NondetString("other.slot"), denom: zzverif.NondetString("denom")}
	zzverif.Assume(e.other != slot)
	zzverif.Assume(sdk.ValidateDenom(e.denom) == nil)
	pre, found := k.GetBids(ctx, slot)
	e.preAmt = zzBidAmount(pre, found, e.denom)
	e.opre, e.ofound = k.GetBids(ctx, e.other)
	e.mod0 = bank.ZModuleBal(types.ModuleName, e.denom)
	return e
}

func zzEscrowAfter(k Keeper, bank *zzverif.Bank, ctx sdk.Context, e zzEscrow, tag string) {
	post, found := k.GetBids(ctx, e.slot)
	postAmt := zzBidAmount(post, found, e.denom)
	mod1 := bank.ZModuleBal(types.ModuleName, e.denom)
	zzverif.Assert(mod1.Sub(e.mod0).Eq(postAmt.Sub(e.preAmt)), "C09/"+tag+"-escrow-delta-equals-bid-delta")
	opost, ofound := k.GetBids(ctx, e.other)
	same := ofound == e.ofound
	if same && ofound {
		same = zzverif.And(opost.Price == e.opre.Price, zzverif.And(opost.Bidder == e.opre.Bidder, opost.Name == e.opre.Name))
	}
	zzverif.Assert(same, "C09/"+tag+"-other-bids-untouched")
}

func zzBidSetup() (Keeper, *zzverif.Bank, sdk.Context, int64, msgServer) {
	k, bank, ctx, h, srv := zzSetup()
	return k, bank, ctx, h, srv
}

func VH_C09_bid() {
	k, bank, ctx, _, srv := zzBidSetup()
	creator, name := zzverif.NondetString("creator"), zzverif.NondetString("name")
	bid := sdk.Coin{Denom: zzverif.NondetString("bid.denom"), Amount: sdk.NewInt(zzverif.NondetRange("bid.amount", 0, 1<<62))}
	bidder, berr := sdk.AccAddressFromBech32(creator)
	zzverif.Assume(berr == nil) // otherwise the message fails before touching anything (checked below by rollback)
	zzverif.Assume(!zzverif.IsModuleAddr(bidder))
	e := zzEscrowBefore(k, bank, ctx, bidder.String()+zzverifLower(name))
	err, pan := zzverif.Deliver(func() error {
		_, er := srv.Bid(sdk.WrapSDKContext(ctx), &types.MsgBid{Creator: creator, Name: name, Bid: bid})
		return er
	})
	zzEscrowAfter(k, bank, ctx, e, "bid")
	if zzverif.Ok(err, pan) {
		zzverif.Cover("C09/bid-succeeds")
	}
}

func VH_C09_cancel() {
	k, bank, ctx, _, srv := zzBidSetup()
	creator, name := zzverif.NondetString("creator"), zzverif.NondetString("name")
	bidder, berr := sdk.AccAddressFromBech32(creator)
	zzverif.Assume(berr == nil)
	zzverif.Assume(zzverif.And(!zzverif.IsModuleAddr(bidder), !zzverif.Blocked(bidder)))
	e := zzEscrowBefore(k, bank, ctx, creator+zzverifLower(name))
	b0 := bank.ZBal(bidder, e.denom)
	err, pan := zzverif.Deliver(func() error {
		_, er := srv.CancelBid(sdk.WrapSDKContext(ctx), &types.MsgCancelBid{Creator: creator, Name: name})
		return er
	})
	zzEscrowAfter(k, bank, ctx, e, "cancel")
	if zzverif.Ok(err, pan) {
		_, still := k.GetBids(ctx, e.slot)
		zzverif.Assert(!still, "C09/cancel-removes-bid")
		zzverif.Assert(bank.ZBal(bidder, e.denom).Sub(b0).Eq(e.preAmt), "C09/cancel-refunds-bidder-in-full")
		zzverif.Cover("C09/cancel-succeeds")
	}
}

func VH_C09_accept() {
	k, bank, ctx, _, srv := zzBidSetup()
	msg := types.MsgAcceptBid{Creator: zzverif.NondetString("creator"), Name: zzverif.NondetString("name"), From: zzverif.NondetString("from")}
	owner, oerr := sdk.AccAddressFromBech32(msg.Creator)
	zzverif.Assume(oerr == nil)
	zzverif.Assume(zzverif.And(!zzverif.IsModuleAddr(owner), !zzverif.Blocked(owner)))
	e := zzEscrowBefore(k, bank, ctx, msg.From+zzverifLower(msg.Name))
	o0 := bank.ZBal(owner, e.denom)
	err, pan := zzverif.Deliver(func() error { _, er := srv.AcceptBid(sdk.WrapSDKContext(ctx), &msg); return er })
	zzEscrowAfter(k, bank, ctx, e, "accept")
	if zzverif.Ok(err, pan) {
		_, still := k.GetBids(ctx, e.slot)
		zzverif.Assert(!still, "C09/accept-removes-bid")
		zzverif.Assert(bank.ZBal(owner, e.denom).Sub(o0).Eq(e.preAmt), "C09/accept-pays-owner-the-bid")
		zzverif.Cover("C09/accept-succeeds")
	}
}

// Register and Buy pass funds through the module account without residue and touch no bid.
func VH_C09_register_buy_no_residue() {
	k, bank, ctx, _, srv := zzBidSetup()
	zzverif.AssumeNoKeysWithPrefix("rns", types.PrimaryNameKeyPrefix)
	e := zzEscrowBefore(k, bank, ctx, zzverif.NondetString("some.slot"))
	creator, name := zzverif.NondetString("creator"), zzverif.NondetString("name")
	c, cerr := sdk.AccAddressFromBech32(creator)
	zzverif.Assume(cerr == nil)
	zzverif.Assume(!zzverif.IsModuleAddr(c))
	var err error
	var pan bool
	if zzverif.NondetBool("buy") {
		err, pan = zzverif.Deliver(func() error {
			_, er := srv.Buy(sdk.WrapSDKContext(ctx), &types.MsgBuy{Creator: creator, Name: name})
			return er
		})
	} else {
		years := int64(zzverif.NondetLen("years", 1, 2))
		err, pan = zzverif.Deliver(func() error {
			_, er := srv.RegisterName(sdk.WrapSDKContext(ctx), &types.MsgRegisterName{Creator: creator, Name: name, Years: years, Data: "{}"})
			return er
		})
	}
	zzEscrowAfter(k, bank, ctx, e, "register-buy")
	if zzverif.Ok(err, pan) {
		zzverif.Cover("C09/register-buy-succeeds")
	}
}
