package keeper

import (
	"strings"

	sdk "github.com/cosmos/cosmos-sdk/types"
	alltypes "github.com/jackalLabs/canine-chain/v4/types"
	"github.com/jackalLabs/canine-chain/v4/x/rns/types"
	"github.com/jackalLabs/canine-chain/v4/zzverif"
)

const zzBlocksPerYear int64 = 5484530

// zzYearlyPrice is the independent specification of the price table (x/rns README): base cost per TLD,
// multiplied by 24/12/6/3/1 for names of 1/2/3/4/5+ characters.
func zzYearlyPrice(n int, tld string) zzverif.Z {
	base := int64(10_000_000)
	if tld == "ibc" {
		base = 50_000_000
	}
	mult := int64(1)
	switch n {
	case 1:
		mult = 24
	case 2:
		mult = 12
	case 3:
		mult = 6
	case 4:
		mult = 3
	}
	return zzverif.ZOf(base * mult)
}

// VH_C16_register: contract of the real RegisterRNSName from an arbitrary well-formed store.
func VH_C16_register() {
	k, bank, ctx, h, _ := zzSetup()
	zzverif.AssumeNoKeysWithPrefix("rns", types.PrimaryNameKeyPrefix) // primary-name bookkeeping is outside C16
	sender := zzverif.NondetString("sender")
	nm := zzverif.NondetString("name")
	years := zzverif.NondetInt64("years") // any int64, also zero, negative and absurdly large
	data := zzverif.NondetString("data")

	lnm := strings.ReplaceAll(strings.ToLower(nm), " ", "")
	n, tld, perr := GetNameAndTLD(lnm)
	pre, found := k.GetNames(ctx, n, tld)
	registrant, serr := sdk.AccAddressFromBech32(sender)
	pol, _ := alltypes.GetPOLAccount()
	zzverif.Assume(serr != nil || zzverif.And(!zzverif.IsModuleAddr(registrant), string(registrant) != string(pol)))
	zzverif.Assume(!zzverif.Blocked(pol))
	var r0, p0, m0 zzverif.Z
	if serr == nil {
		r0 = bank.ZBal(registrant, "ujkl")
	}
	p0, m0 = bank.ZBal(pol, "ujkl"), bank.ZModuleBal(types.ModuleName, "ujkl")
	ownedBySender := found && serr == nil && pre.Value == registrant.String()
	live := found && h <= pre.Expires

	err, pan := zzverif.Deliver(func() error { return k.RegisterRNSName(ctx, sender, nm, data, years, false) })

	if zzverif.Ok(err, pan) {
		zzverif.Cover("C16/register-succeeds")
		zzverif.Assert(perr == nil && serr == nil, "C16/success-needs-valid-name-and-sender")
		zzverif.Assert(years >= 1, "C16/success-needs-positive-years")
		price := zzYearlyPrice(len(n), tld).Mul(zzverif.ZOf(years))
		zzverif.Assert(r0.Sub(bank.ZBal(registrant, "ujkl")).Eq(price), "C16/registrant-debited-years-times-price")
		zzverif.Assert(bank.ZBal(pol, "ujkl").Sub(p0).Eq(price), "C16/liquidity-account-receives-price")
		zzverif.Assert(bank.ZModuleBal(types.ModuleName, "ujkl").Eq(m0), "C16/module-keeps-nothing")
		post, pfound := k.GetNames(ctx, n, tld)
		zzverif.Assert(pfound && post.Value == registrant.String(), "C16/name-resolves-to-registrant")
		term := zzverif.ZOf(years).Mul(zzverif.ZOf(zzBlocksPerYear))
		zzverif.Assert(zzverif.ZOf(post.Expires).Ge(zzverif.ZOf(h).Add(term)), "C16/unexpired-for-the-term")
		if live && ownedBySender {
			zzverif.Cover("C16/renewal-of-live-name")
			zzverif.Assert(zzverif.ZOf(post.Expires).Eq(zzverif.ZOf(pre.Expires).Add(term)), "C16/renewal-extends-by-exactly-the-term")
		}
		if live {
			zzverif.Assert(ownedBySender, "C16/live-name-only-by-its-owner")
		}
	} else {
		zzverif.Cover("C16/register-fails")
	}
}
