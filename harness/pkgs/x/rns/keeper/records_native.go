package keeper

import (
	"github.com/cosmos/cosmos-sdk/codec"
	"github.com/jackalLabs/canine-chain/v4/x/rns/types"
	"github.com/jackalLabs/canine-chain/v4/zzverif"
)

func init() {
	zzverif.RegisterRecord("Names", func() codec.ProtoMarshaler { return &types.Names{} })
	zzverif.RegisterRecord("Forsale", func() codec.ProtoMarshaler { return &types.Forsale{} })
	zzverif.RegisterRecord("Bids", func() codec.ProtoMarshaler { return &types.Bids{} })
	zzverif.RegisterRecord("Init", func() codec.ProtoMarshaler { return &types.Init{} })
	zzverif.RegisterRecord("Whois", func() codec.ProtoMarshaler { return &types.Whois{} })
}
