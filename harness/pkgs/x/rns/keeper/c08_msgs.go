package keeper

import (
	sdk "github.com/cosmos/cosmos-sdk/types"
	"github.com/jackalLabs/canine-chain/v4/x/rns/types"
	"github.com/jackalLabs/canine-chain/v4/zzverif"
)

// Every harness below: open-world store, an arbitrary observed name record T, one real message with
// arbitrary fields and signer. C08: if T is live and changes, the signer is T's current owner (and the
// message is one that acts for the owner), otherwise nothing about T changes.

func zzSetup() (Keeper, *zzverif.Bank, sdk.Context, int64, msgServer) {
	zzverif.OpenStore("rns")
	zzverif.SetSliceBoundFor("Subdomains", 1)
	zzWF()
	bank := zzverif.NewBank()
	k := zzKeeper(bank)
	ctx, h := zzCtx()
	return k, bank, ctx, h, msgServer{Keeper: k}
}

func VH_C08_transfer() {
	k, _, ctx, h, srv := zzSetup()
	t := zzObserve(k, ctx, h)
	msg := types.MsgTransfer{Creator: zzverif.NondetString("creator"), Name: zzverif.NondetString("name"), Receiver: zzverif.NondetString("receiver")}
	err, pan := zzverif.Deliver(func() error { _, e := srv.Transfer(sdk.WrapSDKContext(ctx), &msg); return e })
	ch, post := zzChanged(k, ctx, t)
	if ch {
		zzverif.Cover("C08/transfer-changes-target")
		zzverif.Assert(zzverif.Ok(err, pan), "C08/transfer-change-only-on-success")
		zzverif.Assert(t.live, "C08/transfer-only-live-names")
		zzverif.Assert(zzSameAccount(msg.Creator, t.owner), "C08/transfer-signed-by-current-owner")
		zzverif.Assert(post.Value == msg.Receiver, "C08/transfer-to-named-receiver")
	}
	if zzverif.Ok(err, pan) {
		zzverif.Cover("C08/transfer-succeeds")
	}
}

func VH_C08_update() {
	k, _, ctx, h, srv := zzSetup()
	t := zzObserve(k, ctx, h)
	msg := types.MsgUpdate{Creator: zzverif.NondetString("creator"), Name: zzverif.NondetString("name"), Data: zzverif.NondetString("data")}
	err, pan := zzverif.Deliver(func() error { _, e := srv.Update(sdk.WrapSDKContext(ctx), &msg); return e })
	ch, post := zzChanged(k, ctx, t)
	if ch {
		zzverif.Cover("C08/update-changes-target")
		zzverif.Assert(zzverif.Ok(err, pan), "C08/update-change-only-on-success")
		zzverif.Assert(t.live, "C08/update-only-live-names")
		zzverif.Assert(zzSameAccount(msg.Creator, t.owner), "C08/update-signed-by-current-owner")
		zzverif.Assert(post.Value == t.pre.Value, "C08/update-keeps-owner")
	}
	if zzverif.Ok(err, pan) {
		zzverif.Cover("C08/update-succeeds")
	}
}

func VH_C08_addrecord() {
	k, _, ctx, h, srv := zzSetup()
	t := zzObserve(k, ctx, h)
	msg := types.MsgAddRecord{Creator: zzverif.NondetString("creator"), Name: zzverif.NondetString("name"),
		Value: zzverif.NondetString("value"), Data: zzverif.NondetString("data"), Record: zzverif.NondetString("record")}
	err, pan := zzverif.Deliver(func() error { _, e := srv.AddRecord(sdk.WrapSDKContext(ctx), &msg); return e })
	ch, post := zzChanged(k, ctx, t)
	if ch {
		zzverif.Cover("C08/addrecord-changes-target")
		zzverif.Assert(zzverif.Ok(err, pan), "C08/addrecord-change-only-on-success")
		zzverif.Assert(t.live, "C08/addrecord-only-live-names")
		zzverif.Assert(zzSameAccount(msg.Creator, t.owner), "C08/addrecord-signed-by-current-owner")
		zzverif.Assert(zzverif.And(post.Value == t.pre.Value, post.Data == t.pre.Data), "C08/addrecord-keeps-owner-and-data")
	}
	if zzverif.Ok(err, pan) {
		zzverif.Cover("C08/addrecord-succeeds")
	}
}

func VH_C08_delrecord() {
	k, _, ctx, h, srv := zzSetup()
	t := zzObserve(k, ctx, h)
	msg := types.MsgDelRecord{Creator: zzverif.NondetString("creator"), Name: zzverif.NondetString("name")}
	err, pan := zzverif.Deliver(func() error { _, e := srv.DelRecord(sdk.WrapSDKContext(ctx), &msg); return e })
	ch, post := zzChanged(k, ctx, t)
	if ch {
		zzverif.Cover("C08/delrecord-changes-target")
		zzverif.Assert(zzverif.Ok(err, pan), "C08/delrecord-change-only-on-success")
		zzverif.Assert(t.live, "C08/delrecord-only-live-names")
		zzverif.Assert(zzSameAccount(msg.Creator, t.owner), "C08/delrecord-signed-by-current-owner")
		zzverif.Assert(zzverif.And(post.Value == t.pre.Value, post.Data == t.pre.Data), "C08/delrecord-keeps-owner-and-data")
	}
	if zzverif.Ok(err, pan) {
		zzverif.Cover("C08/delrecord-succeeds")
	}
}

func VH_C08_list_delist() {
	k, _, ctx, h, srv := zzSetup()
	t := zzObserve(k, ctx, h)
	creator, name := zzverif.NondetString("creator"), zzverif.NondetString("name")
	var err error
	var pan bool
	if zzverif.NondetBool("delist") {
		err, pan = zzverif.Deliver(func() error {
			_, e := srv.Delist(sdk.WrapSDKContext(ctx), &types.MsgDelist{Creator: creator, Name: name})
			return e
		})
	} else {
		amt := zzverif.NondetRange("price.amount", 0, 1<<62)
		price := sdk.Coin{Denom: zzverif.NondetString("price.denom"), Amount: sdk.NewInt(amt)}
		err, pan = zzverif.Deliver(func() error {
			_, e := srv.List(sdk.WrapSDKContext(ctx), &types.MsgList{Creator: creator, Name: name, Price: price})
			return e
		})
		if zzverif.Ok(err, pan) {
			// a successful listing is recorded for the signer, who is the current owner of a live name
			sale, ok := k.GetForsale(ctx, zzverifLower(name))
			zzverif.Assert(ok && sale.Owner == creator, "C08/list-recorded-for-signer")
			zzverif.Cover("C08/list-succeeds")
		}
	}
	ch, _ := zzChanged(k, ctx, t)
	zzverif.Assert(!ch, "C08/list-delist-never-change-names")
	if zzverif.Ok(err, pan) {
		zzverif.Cover("C08/list-delist-succeeds")
	}
}

func VH_C08_acceptbid() {
	k, bank, ctx, h, srv := zzSetup()
	t := zzObserve(k, ctx, h)
	msg := types.MsgAcceptBid{Creator: zzverif.NondetString("creator"), Name: zzverif.NondetString("name"), From: zzverif.NondetString("from")}
	// the bid the message refers to (WF: a stored bid has a single canonical coin price, key = index)
	lname := zzverifLower(msg.Name)
	bid, bfound := k.GetBids(ctx, msg.From+lname)
	var price sdk.Coins
	var ownerBal0 zzverif.Z
	if bfound {
		var perr error
		price, perr = sdk.ParseCoinsNormalized(bid.Price)
		zzverif.Assume(perr == nil)
		zzverif.Assume(bid.Index == msg.From+lname)
	}
	if t.found {
		zzverif.Assume(!zzverif.Blocked(t.owner))
		zzverif.Assume(string(t.owner) != string(zzverif.ModuleAddr(types.ModuleName)))
		if len(price) == 1 {
			ownerBal0 = bank.ZBal(t.owner, price[0].Denom)
		}
	}
	err, pan := zzverif.Deliver(func() error { _, e := srv.AcceptBid(sdk.WrapSDKContext(ctx), &msg); return e })
	ch, post := zzChanged(k, ctx, t)
	if ch {
		zzverif.Cover("C08/acceptbid-changes-target")
		zzverif.Assert(zzverif.Ok(err, pan), "C08/acceptbid-change-only-on-success")
		zzverif.Assert(t.live, "C08/acceptbid-only-live-names")
		zzverif.Assert(zzSameAccount(msg.Creator, t.owner), "C08/acceptbid-signed-by-current-owner")
		zzverif.Assert(bfound && post.Value == bid.Bidder, "C08/acceptbid-new-owner-is-bidder")
		if len(price) == 1 {
			zzverif.Assert(bank.ZBal(t.owner, price[0].Denom).Eq(ownerBal0.Add(zzverif.ZOfBig(price[0].Amount.BigInt()))), "C08/acceptbid-owner-paid-bid")
		}
	}
	if zzverif.Ok(err, pan) {
		zzverif.Cover("C08/acceptbid-succeeds")
	}
}

func VH_C08_bid_cancel() {
	k, _, ctx, h, srv := zzSetup()
	t := zzObserve(k, ctx, h)
	creator, name := zzverif.NondetString("creator"), zzverif.NondetString("name")
	var err error
	var pan bool
	if zzverif.NondetBool("cancel") {
		err, pan = zzverif.Deliver(func() error {
			_, e := srv.CancelBid(sdk.WrapSDKContext(ctx), &types.MsgCancelBid{Creator: creator, Name: name})
			return e
		})
	} else {
		amt := zzverif.NondetRange("bid.amount", 0, 1<<62)
		bid := sdk.Coin{Denom: zzverif.NondetString("bid.denom"), Amount: sdk.NewInt(amt)}
		err, pan = zzverif.Deliver(func() error {
			_, e := srv.Bid(sdk.WrapSDKContext(ctx), &types.MsgBid{Creator: creator, Name: name, Bid: bid})
			return e
		})
	}
	ch, _ := zzChanged(k, ctx, t)
	zzverif.Assert(!ch, "C08/bid-cancel-never-change-names")
	if zzverif.Ok(err, pan) {
		zzverif.Cover("C08/bid-cancel-succeeds")
	}
}

// Register / Init may (re)assign an existing record: only for the owner, or once it has expired.
func VH_C08_register() {
	k, _, ctx, h, srv := zzSetup()
	zzverif.AssumeNoKeysWithPrefix("rns", types.PrimaryNameKeyPrefix) // primary names are outside C08
	t := zzObserve(k, ctx, h)
	msg := types.MsgRegisterName{Creator: zzverif.NondetString("creator"), Name: zzverif.NondetString("name"),
		Years: zzverif.NondetRange("years", 1, 1000), Data: zzverif.NondetString("data"), SetPrimary: false}
	err, pan := zzverif.Deliver(func() error { _, e := srv.RegisterName(sdk.WrapSDKContext(ctx), &msg); return e })
	ch, _ := zzChanged(k, ctx, t)
	if ch {
		zzverif.Cover("C08/register-changes-target")
		zzverif.Assert(zzverif.Ok(err, pan), "C08/register-change-only-on-success")
		if t.live {
			zzverif.Assert(zzSameAccount(msg.Creator, t.owner), "C08/register-live-name-only-by-owner")
		}
	}
	if zzverif.Ok(err, pan) {
		zzverif.Cover("C08/register-succeeds")
	}
}

func VH_C08_init() {
	// Init derives the name from the block height through two word lists: heights are case-split (bound)
	zzverif.OpenStore("rns")
	zzWF()
	bank := zzverif.NewBank()
	k := zzKeeper(bank)
	h := int64(zzverif.NondetLen("height", 0, 2)) + zzverif.NondetRange("height.thousands", 0, 1<<30)*0
	ctx := zzverif.Ctx(h, zzverif.NondetTime("blocktime"), 0)
	srv := msgServer{Keeper: k}
	t := zzObserve(k, ctx, h)
	msg := types.MsgInit{Creator: zzverif.NondetString("creator")}
	err, pan := zzverif.Deliver(func() error { _, e := srv.Init(sdk.WrapSDKContext(ctx), &msg); return e })
	ch, _ := zzChanged(k, ctx, t)
	if ch {
		zzverif.Cover("C08/init-changes-target")
		zzverif.Assert(zzverif.Ok(err, pan), "C08/init-change-only-on-success")
		if t.live {
			zzverif.Assert(zzSameAccount(msg.Creator, t.owner), "C08/init-live-name-only-by-owner")
		}
	}
	if zzverif.Ok(err, pan) {
		zzverif.Cover("C08/init-succeeds")
	}
}
