package rns

import (
	sdk "github.com/cosmos/cosmos-sdk/types"
	"github.com/jackalLabs/canine-chain/v4/x/rns/keeper"
	"github.com/jackalLabs/canine-chain/v4/x/rns/types"
	"github.com/jackalLabs/canine-chain/v4/zzverif"
)

// C19 (rns): one record of every kind written by the module's own setters, real ExportGenesis ->
// Validate -> InitGenesis into an empty store, same reads afterwards, same second export.
func zzRnsSetup() (keeper.Keeper, keeper.Keeper, sdk.Context) {
	bank := zzverif.NewBank("ujkl")
	k1 := keeper.NewKeeper(zzverif.Codec(), zzverif.StoreKey("rns"), zzverif.Subspace("rns"), bank)
	k2 := keeper.NewKeeper(zzverif.Codec(), zzverif.StoreKey("rns.fresh"), zzverif.Subspace("rns.fresh"), bank)
	ctx := zzverif.Ctx(zzverif.NondetRange("height", 0, 1<<40), zzverif.NondetTime("blocktime"), 0)
	p := types.DefaultParams()
	p.DepositAccount = zzverif.NondetAddr("param.DepositAccount")
	k1.SetParams(ctx, p)
	return *k1, *k2, ctx
}

func VH_C19_rns_records() {
	k1, k2, ctx := zzRnsSetup()
	name := types.Names{Name: zzverif.NondetString("name.name"), Tld: zzverif.NondetString("name.tld"), Expires: zzverif.NondetRange("name.expires", 0, 1<<40),
		Value: zzverif.NondetAddr("name.owner"), Data: zzverif.NondetString("name.data"), Locked: zzverif.NondetRange("name.locked", 0, 1<<40)}
	zzverif.Assume(zzverif.And(zzverif.IsLowerASCII(name.Name), zzverif.IsLowerASCII(name.Tld))) // names are stored lower-cased
	k1.SetNames(ctx, name)
	bid := types.Bids{Index: zzverif.NondetString("bid.index"), Name: zzverif.NondetString("bid.name"), Bidder: zzverif.NondetAddr("bid.bidder"), Price: zzverif.NondetString("bid.price")}
	k1.SetBids(ctx, bid)
	sale := types.Forsale{Name: zzverif.NondetString("sale.name"), Price: zzverif.NondetString("sale.price"), Owner: zzverif.NondetAddr("sale.owner")}
	k1.SetForsale(ctx, sale)
	who := types.Whois{Index: zzverif.NondetString("whois.index"), Name: zzverif.NondetString("whois.name"), Value: zzverif.NondetString("whois.value"), Data: zzverif.NondetString("whois.data")}
	k1.SetWhois(ctx, who)
	ini := types.Init{Address: zzverif.NondetAddr("init.address"), Complete: zzverif.NondetBool("init.complete")}
	k1.SetInit(ctx, ini)

	gen := ExportGenesis(ctx, k1)
	zzverif.Assert(gen.Validate() == nil, "C19/rns-exported-genesis-validates")
	InitGenesis(ctx, k2, *gen)
	gen2 := ExportGenesis(ctx, k2)
	zzverif.Cover("C19/rns-round-trip-done")

	gn, nf := k2.GetNames(ctx, name.Name, name.Tld)
	zzverif.Assert(nf && zzverif.And(gn.Value == name.Value, zzverif.And(gn.Expires == name.Expires, zzverif.And(gn.Data == name.Data, gn.Locked == name.Locked))), "C19/rns-name-survives")
	gb, bf := k2.GetBids(ctx, bid.Index)
	zzverif.Assert(bf && zzverif.And(gb.Name == bid.Name, zzverif.And(gb.Bidder == bid.Bidder, gb.Price == bid.Price)), "C19/rns-bid-survives")
	gs, sf := k2.GetForsale(ctx, sale.Name)
	zzverif.Assert(sf && zzverif.And(gs.Price == sale.Price, gs.Owner == sale.Owner), "C19/rns-listing-survives")
	gw, wf := k2.GetWhois(ctx, who.Index)
	zzverif.Assert(wf && zzverif.And(gw.Name == who.Name, zzverif.And(gw.Value == who.Value, gw.Data == who.Data)), "C19/rns-whois-survives")
	gi, inf := k2.GetInit(ctx, ini.Address)
	zzverif.Assert(inf && gi.Complete == ini.Complete, "C19/rns-init-survives")
	zzverif.Assert(k2.GetParams(ctx).DepositAccount == k1.GetParams(ctx).DepositAccount, "C19/rns-params-survive")
	zzverif.Assert(len(gen2.NamesList) == len(gen.NamesList) && len(gen2.BidsList) == len(gen.BidsList) && len(gen2.ForSaleList) == len(gen.ForSaleList) && len(gen2.WhoIsList) == len(gen.WhoIsList) && len(gen2.InitList) == len(gen.InitList), "C19/rns-second-export-lists-the-same-records")
}

// VH_C19_rns_primary: an account's primary-name choice (SetPrimaryName) next to the name it points at.
func VH_C19_rns_primary() {
	k1, k2, ctx := zzRnsSetup()
	owner := zzverif.NondetAddr("owner")
	name := types.Names{Name: "alice", Tld: "jkl", Expires: zzverif.NondetRange("name.expires", 0, 1<<40), Value: owner}
	k1.SetNames(ctx, name)
	k1.SetPrimaryName(ctx, owner, name.Name, name.Tld)
	_, had := k1.GetPrimaryName(ctx, owner)
	zzverif.Assume(had)

	gen := ExportGenesis(ctx, k1)
	zzverif.Assert(gen.Validate() == nil, "C19/rns-exported-genesis-validates")
	InitGenesis(ctx, k2, *gen)
	zzverif.Cover("C19/rns-primary-round-trip-done")
	got, found := k2.GetPrimaryName(ctx, owner)
	zzverif.Assert(found && got.Name == name.Name, "C19/rns-primary-name-survives")
}
